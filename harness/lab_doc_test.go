package harness

import (
	"context"
	"encoding/json"
	"errors"
	"fmt"
	"math/big"
	"net"
	"net/http"
	"net/http/httptest"
	"net/netip"
	"net/url"
	"path/filepath"
	"sort"
	"strconv"
	"strings"
	"sync"
	"sync/atomic"
	"testing"
	"testing/synctest"
	"time"

	"github.com/DataDog/datadog-traceroute/cache"
	"github.com/DataDog/datadog-traceroute/result"
	"github.com/DataDog/datadog-traceroute/reversedns"
	"github.com/DataDog/datadog-traceroute/server"
	"github.com/DataDog/datadog-traceroute/traceroute"
)

func init() { labs["doc"] = labDoc }

const rttUnit = 1024 // RTT samples are k/1024 ms: exact in binary64

type docHop struct {
	ttl  int
	ip   []byte
	rttK int64
	dest bool
}

type docQuery struct {
	delay time.Duration
	ok    bool
	srcIP []byte
	sport int
	dstIP []byte
	dport int
	hops  []docHop
	errID int
	wrap  int // error wrapping depth
}

type docResolver struct {
	ip    []byte // canonical
	ok    bool
	names []string
}

type docCase struct {
	q, e              int
	rdns, skip, pubip bool
	maxTTL            int
	timeout           time.Duration
	runs, e2es        []docQuery
	resolver          []docResolver
	pubOK             bool
	pubText           string
	cancelAt          time.Duration // 0: never; else the caller's context is cancelled at this instant
	viaHTTP           bool          // the request goes through the HTTP handler instead of the library call
	prior             bool          // another request was served by the same Traceroute object (and process-wide caches) just before
	twin              bool          // (viaHTTP) a second request to the SAME server, same parameters except skip-private-hops, is in flight meanwhile
}

func (h docHop) sx() sx {
	return L(sxInt(int64(h.ttl)), sxBytes(h.ip), sxInt(h.rttK), sxBool(h.dest))
}
func (q docQuery) sx(done time.Duration) sx {
	hs := sxList{}
	for _, h := range q.hops {
		hs = append(hs, h.sx())
	}
	return L(sxInt(int64(done)), sxBool(q.ok), sxBytes(q.srcIP), sxInt(int64(q.sport)), sxBytes(q.dstIP), sxInt(int64(q.dport)), hs, sxInt(int64(q.errID)))
}

func e2eDelay(c docCase) time.Duration {
	if c.e <= 0 {
		return 0
	}
	d := (time.Duration(c.maxTTL) * c.timeout) / time.Duration(c.e)
	if d > time.Second {
		d = time.Second
	}
	return d
}

func (c docCase) input() sx {
	runs, e2es, rv := sxList{}, sxList{}, sxList{}
	for _, q := range c.runs {
		runs = append(runs, q.sx(q.delay))
	}
	ed := e2eDelay(c)
	for i, q := range c.e2es {
		e2es = append(e2es, q.sx(time.Duration(i)*ed+q.delay))
	}
	for _, r := range c.resolver {
		ns := sxList{}
		for _, n := range r.names {
			ns = append(ns, sxStr(n))
		}
		rv = append(rv, L(sxBytes(r.ip), sxBool(r.ok), ns))
	}
	return L(sxInt(2), L(sxBool(c.rdns), sxBool(c.skip), sxBool(c.pubip)), runs, e2es, rv, L(sxBool(c.pubOK), sxStr(c.pubText)), sxInt(rttUnit))
}

type stubFetcher struct {
	ok   bool
	text string
}

func (s stubFetcher) GetIP(ctx context.Context) (net.IP, error) {
	time.Sleep(37 * time.Millisecond)
	if !s.ok {
		return nil, errors.New("no IP found")
	}
	return net.ParseIP(s.text), nil
}

func ratSx(v float64) sx {
	r := new(big.Rat)
	if r.SetFloat64(v) == nil {
		return L(sxInt(0), sxInt(0))
	}
	return L(sxBig(r.Num().String()), sxBig(r.Denom().String()))
}

func ipTextBytes(s string) []byte {
	if s == "" {
		return nil
	}
	a, err := netip.ParseAddr(s)
	if err != nil {
		return []byte("?" + s)
	}
	return a.AsSlice()
}

func sortedKeys(m map[string]any) sx {
	ks := make([]string, 0, len(m))
	for k := range m {
		ks = append(ks, k)
	}
	sort.Strings(ks)
	out := sxList{}
	for _, k := range ks {
		out = append(out, sxStr(k))
	}
	return out
}

func strList(v any) sxList {
	out := sxList{}
	if l, ok := v.([]any); ok {
		for _, x := range l {
			if s, ok := x.(string); ok {
				out = append(out, sxStr(s))
			}
		}
	}
	return out
}

func num(v any) float64 { f, _ := v.(float64); return f }
func str_(v any) string { s, _ := v.(string); return s }
func obj(v any) map[string]any {
	m, _ := v.(map[string]any)
	if m == nil {
		m = map[string]any{}
	}
	return m
}

// docSx renders the JSON document the call produced (decoded generically) for the model.
func docSx(raw []byte) (sx, sx) {
	var top map[string]any
	if err := json.Unmarshal(raw, &top); err != nil {
		return L(), L()
	}
	keys := sxList{sortedKeys(top)}
	tr := obj(top["traceroute"])
	keys = append(keys, sortedKeys(obj(top["source"])), sortedKeys(obj(top["destination"])), sortedKeys(tr), sortedKeys(obj(tr["hop_count"])))
	e2e := obj(top["e2e_probe"])
	keys = append(keys, sortedKeys(e2e), sortedKeys(obj(e2e["rtt"])))
	ids := sxList{sxStr(str_(top["test_run_id"]))}
	runs := sxList{}
	runKeys, hopKeys := map[string]bool{}, map[string]bool{}
	if rl, ok := tr["runs"].([]any); ok {
		for _, rv := range rl {
			r := obj(rv)
			for k := range r {
				runKeys[k] = true
			}
			ids = append(ids, sxStr(str_(r["run_id"])))
			src, dst := obj(r["source"]), obj(r["destination"])
			hops := sxList{}
			if hl, ok := r["hops"].([]any); ok {
				for _, hv := range hl {
					h := obj(hv)
					for k := range h {
						hopKeys[k] = true
					}
					reach, _ := h["reachable"].(bool)
					_, hasR := h["reverse_dns"]
					hops = append(hops, L(sxInt(int64(num(h["ttl"]))), sxBytes(ipTextBytes(str_(h["ip_address"]))), ratSx(num(h["rtt"])), sxBool(reach), strList(h["reverse_dns"]), sxBool(hasR)))
				}
			}
			runs = append(runs, L(sxBytes(ipTextBytes(str_(src["ip_address"]))), sxInt(int64(num(src["port"]))), sxBytes(ipTextBytes(str_(dst["ip_address"]))), sxInt(int64(num(dst["port"]))), strList(dst["reverse_dns"]), hops))
		}
	}
	mk := func(m map[string]bool) sx {
		ks := []string{}
		for k := range m {
			ks = append(ks, k)
		}
		sort.Strings(ks)
		out := sxList{}
		for _, k := range ks {
			out = append(out, sxStr(k))
		}
		return out
	}
	keys = append(keys, mk(runKeys), mk(hopKeys))
	hc := obj(tr["hop_count"])
	rtts := sxList{}
	if l, ok := e2e["rtts"].([]any); ok {
		for _, v := range l {
			rtts = append(rtts, ratSx(num(v)))
		}
	}
	er := obj(e2e["rtt"])
	d := L(sxStr(str_(top["protocol"])), sxStr(str_(obj(top["destination"])["hostname"])), sxInt(int64(num(obj(top["destination"])["port"]))),
		sxStr(str_(obj(top["source"])["public_ip"])), ids, runs,
		L(ratSx(num(hc["avg"])), sxInt(int64(num(hc["min"]))), sxInt(int64(num(hc["max"])))),
		L(rtts, sxInt(int64(num(e2e["packets_sent"]))), sxInt(int64(num(e2e["packets_received"]))), ratSx(num(e2e["packet_loss_percentage"])),
			ratSx(num(e2e["jitter"])), ratSx(num(er["avg"])), ratSx(num(er["min"])), ratSx(num(er["max"]))))
	return d, keys
}

// timeoutShaped is an injected failure that looks like an i/o timeout (net.Error, Timeout() == true)
type timeoutShaped struct{ id int }

func (e *timeoutShaped) Error() string   { return fmt.Sprintf("injected i/o timeout #%d", e.id) }
func (e *timeoutShaped) Timeout() bool   { return true }
func (e *timeoutShaped) Temporary() bool { return true }

// entries 64..127 are TWINS of 0..63: another failure (its own identity for errors.Is / errors.As) that prints exactly
// like its sibling - what several queries report when one root cause hits them all ("operation not permitted" 53 times)
var docErrs = func() []error {
	es := make([]error, 128)
	for j := range es {
		i := j % 64
		switch {
		case i%8 == 3:
			// what a run that honours its context returns when the caller (or anybody) cancels: still a failed query
			es[j] = fmt.Errorf("injected failure #%d: %w", i, context.Canceled)
		case i%8 == 7:
			es[j] = fmt.Errorf("injected failure #%d: %w", i, context.DeadlineExceeded)
		case i%4 == 1:
			es[j] = &timeoutShaped{i}
		case i%4 == 2:
			es[j] = &net.OpError{Op: "read", Net: "ip4", Err: &timeoutShaped{i}}
		default:
			es[j] = fmt.Errorf("injected failure #%d", i)
		}
	}
	return es
}()

func runDocCase(t *testing.T, c docCase) sx {
	var out sx
	synctest.Test(t, func(t *testing.T) {
		cache.Cache.Flush()
		// the scripted answers are handed out per request: the twin request (the other skip-private-hops value) gets the same ones
		var runIdxs, e2eIdxs [2]atomic.Int32
		twinGate := make(chan struct{})
		var priorPhase atomic.Bool
		restore := traceroute.VerifSetRunOnce(func(ctx context.Context, p traceroute.TracerouteParams, port int) (*result.TracerouteRun, error) {
			which := 0
			if p.SkipPrivateHops != c.skip && !priorPhase.Load() {
				which = 1
				// every query of the twin is held until the observed request has been handed to the handler (and 1 ms more):
				// the two requests overlap in time
				// (no sync.Once here: a goroutine waiting on its mutex is not durably blocked for the virtual clock)
				<-twinGate
				time.Sleep(time.Millisecond)
			}
			runIdx, e2eIdx := &runIdxs[which], &e2eIdxs[which]
			var q docQuery
			// a query the request did not ask for (more runs / probes started than scripted) gets a plain
			// one-hop answer, so the case completes and the counts in the document show the excess
			extra := docQuery{ok: true, hops: []docHop{{ttl: p.MaxTTL, ip: []byte{192, 0, 2, 99}, rttK: 1000, dest: true}}, srcIP: []byte{192, 0, 2, 1}, dstIP: []byte{192, 0, 2, 99}}
			if priorPhase.Load() {
				// the request served BEFORE the observed one: a two-hop path through a private and a public router
				time.Sleep(3 * time.Millisecond)
				return &result.TracerouteRun{
					Source:      result.TracerouteSource{IPAddress: net.IP{192, 0, 2, 1}, Port: 40000},
					Destination: result.TracerouteDestination{IPAddress: net.IP{192, 0, 2, 98}, Port: 33434},
					Hops: []*result.TracerouteHop{{TTL: 1, IPAddress: net.IP{10, 1, 2, 3}, RTT: 1.5}, {TTL: 2, IPAddress: net.IP{8, 8, 8, 8}, RTT: 2.5},
						{TTL: 3, IPAddress: net.IP{192, 0, 2, 98}, RTT: 3.5, IsDest: true}},
				}, nil
			}
			if p.MinTTL == p.MaxTTL {
				if i := int(e2eIdx.Add(1)) - 1; i < len(c.e2es) {
					q = c.e2es[i]
				} else {
					q = extra
				}
			} else {
				if i := int(runIdx.Add(1)) - 1; i < len(c.runs) {
					q = c.runs[i]
				} else {
					q = extra
				}
			}
			time.Sleep(q.delay)
			if !q.ok {
				err := docErrs[q.errID]
				for i := 0; i < q.wrap; i++ {
					err = fmt.Errorf("layer %d: %w", i, err)
				}
				return nil, err
			}
			r := &result.TracerouteRun{
				Source:      result.TracerouteSource{IPAddress: append(net.IP(nil), q.srcIP...), Port: uint16(q.sport)},
				Destination: result.TracerouteDestination{IPAddress: append(net.IP(nil), q.dstIP...), Port: uint16(q.dport)},
			}
			for _, h := range q.hops {
				r.Hops = append(r.Hops, &result.TracerouteHop{TTL: h.ttl, IPAddress: append(net.IP(nil), h.ip...), RTT: float64(h.rttK) / rttUnit, IsDest: h.dest})
			}
			return r, nil
		})
		defer restore()
		oldLookup := reversedns.LookupAddrFn
		defer func() { reversedns.LookupAddrFn = oldLookup }()
		rv := map[string]docResolver{}
		for _, r := range c.resolver {
			a, _ := netip.AddrFromSlice(r.ip)
			rv[a.String()] = r
		}
		var lookups sync.Map
		reversedns.LookupAddrFn = func(ctx context.Context, addr string) ([]string, error) {
			lookups.Store(addr, true)
			r, ok := rv[addr]
			// like net.Resolver, the stub honours its context; a negative answer (NXDOMAIN) comes back faster than the names do
			d := time.Duration(3+len(addr)) * time.Millisecond
			if !ok || !r.ok {
				d = time.Millisecond
			}
			select {
			case <-time.After(d):
			case <-ctx.Done():
				return nil, ctx.Err()
			}
			if !ok || !r.ok {
				return nil, &net.DNSError{Err: "no such host", Name: addr, IsNotFound: ok}
			}
			return append([]string(nil), r.names...), nil
		}
		tr := traceroute.VerifNewTraceroute(stubFetcher{ok: c.pubOK, text: c.pubText})
		params := traceroute.TracerouteParams{Hostname: "target.example", Port: 0, Protocol: "udp", MinTTL: 1, MaxTTL: c.maxTTL, Delay: 50,
			Timeout: c.timeout, TracerouteQueries: c.q, E2eQueries: c.e, ReverseDns: c.rdns, CollectSourcePublicIP: c.pubip, SkipPrivateHops: c.skip}
		if c.prior {
			// what the object and the process-wide caches went through before: a complete request with the opposite flags
			priorPhase.Store(true)
			pp := params
			pp.Hostname, pp.TracerouteQueries, pp.E2eQueries, pp.MaxTTL = "earlier.example", 2, 2, 3
			pp.SkipPrivateHops, pp.ReverseDns, pp.CollectSourcePublicIP = !c.skip, true, true
			_, _ = tr.RunTraceroute(context.Background(), pp)
			priorPhase.Store(false)
		}
		ctx, cancel := context.WithCancel(context.Background())
		defer cancel()
		if c.cancelAt > 0 {
			time.AfterFunc(c.cancelAt, cancel)
		}
		if c.viaHTTP {
			// the same request through the HTTP handler of a Server around this Traceroute object: what a client gets is the
			// status code and the body - the document, or the error's text (individual failures are exposed there by name)
			qs := url.Values{}
			qs.Set("target", params.Hostname)
			qs.Set("max-ttl", strconv.Itoa(c.maxTTL))
			qs.Set("timeout", strconv.Itoa(int(c.timeout/time.Millisecond)))
			qs.Set("traceroute-queries", strconv.Itoa(c.q))
			qs.Set("e2e-queries", strconv.Itoa(c.e))
			qs.Set("reverse-dns", strconv.FormatBool(c.rdns))
			qs.Set("source-public-ip", strconv.FormatBool(c.pubip))
			qs.Set("skip-private-hops", strconv.FormatBool(c.skip))
			rec := httptest.NewRecorder()
			req := httptest.NewRequest(http.MethodGet, "/traceroute?"+qs.Encode(), nil).WithContext(ctx)
			srv := server.VerifNewServer(tr)
			if c.twin {
				qs2 := url.Values{}
				for k, v := range qs {
					qs2[k] = v
				}
				qs2.Set("skip-private-hops", strconv.FormatBool(!c.skip))
				req2 := httptest.NewRequest(http.MethodGet, "/traceroute?"+qs2.Encode(), nil)
				twinDone := make(chan struct{})
				go func() {
					defer close(twinDone)
					srv.TracerouteHandler(httptest.NewRecorder(), req2)
				}()
				defer func() { <-twinDone }()
				// let the twin get as far as its first query before the observed request starts
				synctest.Wait()
				close(twinGate)
			}
			srv.TracerouteHandler(rec, req)
			body := rec.Body.String()
			found := sxList{}
			if rec.Code != http.StatusOK {
				if strings.Contains(body, "Failed to encode") {
					out = L(sxInt(2), found, sxBool(false), L(), L(), sxInt(0))
					return
				}
				for i := range docErrs {
					if strings.Contains(body, fmt.Sprintf("#%d:", i)) || strings.Contains(body, fmt.Sprintf("#%d\n", i)) || strings.HasSuffix(strings.TrimSpace(body), fmt.Sprintf("#%d", i)) || strings.Contains(body, fmt.Sprintf("#%d ", i)) {
						found = append(found, sxInt(int64(i)))
					}
				}
				out = L(sxInt(1), found, sxBool(true), L(), L(), sxInt(0))
				return
			}
			raw := []byte(strings.TrimSpace(body))
			var back result.Results
			rt := 0
			if json.Unmarshal(raw, &back) == nil {
				if raw2, e2 := json.Marshal(&back); e2 == nil && string(raw2) == string(raw) {
					rt = 1
				}
			}
			d, keys := docSx(raw)
			out = L(sxInt(0), found, sxBool(false), d, keys, sxInt(int64(rt)))
			return
		}
		res, err := tr.RunTraceroute(ctx, params)
		found := sxList{}
		if err != nil {
			for i, e := range docErrs {
				if errors.Is(err, e) {
					found = append(found, sxInt(int64(i)))
				}
			}
			out = L(sxInt(1), found, sxBool(res == nil), L(), L(), sxInt(0))
			return
		}
		raw, jerr := json.Marshal(res)
		if jerr != nil {
			out = L(sxInt(2), found, sxBool(false), L(), L(), sxInt(0))
			return
		}
		// decode/encode round trip: the document must decode back and re-encode to the same bytes
		var back result.Results
		rt := 0
		if json.Unmarshal(raw, &back) == nil {
			if raw2, e2 := json.Marshal(&back); e2 == nil && string(raw2) == string(raw) {
				rt = 1
			}
		}
		d, keys := docSx(raw)
		out = L(sxInt(0), found, sxBool(false), d, keys, sxInt(int64(rt)))
	})
	return out
}

// ---- generator --------------------------------------------------------------

var docAddrPool = [][]byte{
	nil,
	{8, 8, 8, 8}, {1, 2, 3, 4}, {9, 255, 255, 255}, {10, 0, 0, 0}, {10, 255, 255, 255}, {11, 0, 0, 0},
	{172, 15, 255, 255}, {172, 16, 0, 0}, {172, 31, 255, 255}, {172, 32, 0, 0},
	{192, 167, 255, 255}, {192, 168, 0, 0}, {192, 168, 255, 255}, {192, 169, 0, 0}, {100, 64, 0, 1}, {169, 254, 1, 1},
	mapped(10, 1, 2, 3), mapped(172, 20, 0, 9), mapped(192, 168, 1, 1), mapped(8, 8, 4, 4), mapped(172, 32, 0, 1),
	{10, 1, 2, 3}, {172, 20, 0, 9}, {192, 168, 1, 1}, {8, 8, 4, 4}, {172, 32, 0, 1}, // the same addresses in their 4-byte form
	v6(0xfc, 0), v6(0xfd, 0xff), v6(0xfb, 0xff), v6(0xfe, 0x80), v6(0x20, 0x01), v6(0xfe, 0),
}

func mapped(a, b, c, d byte) []byte {
	return []byte{0, 0, 0, 0, 0, 0, 0, 0, 0, 0, 0xff, 0xff, a, b, c, d}
}
func v6(b0, b1 byte) []byte {
	x := make([]byte, 16)
	x[0], x[1], x[15] = b0, b1, 1
	return x
}

func canonIP(b []byte) []byte {
	if len(b) == 16 {
		a, _ := netip.AddrFromSlice(b)
		if a.Is4In6() {
			return a.Unmap().AsSlice()
		}
	}
	return b
}

func genDocQuery(r *rng, maxTTL int, e2e bool, used map[int64]bool) docQuery {
	q := docQuery{ok: r.intn(7) != 0, srcIP: pick(r, docAddrPool[1:]), sport: 1024 + r.intn(60000), dstIP: pick(r, docAddrPool[1:]), dport: 33434, errID: r.intn(64), wrap: r.intn(4)}
	for {
		d := int64(1+r.intn(900))*int64(time.Millisecond) + int64(1+r.intn(999))
		if !used[d%1000] {
			used[d%1000] = true
			q.delay = time.Duration(d)
			break
		}
	}
	n := 1 + r.intn(maxTTL)
	if e2e {
		n = 1
	}
	// runs that start above TTL 1 (MinTTL > 1): hop i carries TTL base + i + 1
	base := 0
	if !e2e && r.intn(3) == 0 {
		base = 1 + r.intn(4)
	}
	for i := 0; i < n; i++ {
		h := docHop{ttl: base + i + 1}
		if e2e {
			h.ttl = maxTTL
		}
		if r.intn(4) != 0 {
			h.ip = pick(r, docAddrPool)
			if h.ip != nil {
				h.rttK = int64(1 + r.intn(200000))
			}
		}
		if i == n-1 && h.ip != nil && r.intn(3) != 0 {
			h.dest = true
		}
		q.hops = append(q.hops, h)
	}
	if !e2e && r.intn(3) == 0 {
		// what real runs produce: the destination as parsed from the target (16-byte form) and the
		// destination hop as read off the wire (4-byte form) are the same address
		v4 := pick(r, [][]byte{{8, 8, 4, 4}, {172, 32, 0, 1}, {203, 0, 113, 77}, {10, 1, 2, 3}})
		q.dstIP = mapped(v4[0], v4[1], v4[2], v4[3])
		last := &q.hops[len(q.hops)-1]
		last.ip, last.dest = v4, true
		if last.rttK == 0 {
			last.rttK = int64(1 + r.intn(200000))
		}
	}
	return q
}

func genDocCase(r *rng, i int) docCase {
	c := docCase{q: r.intn(4), e: []int{0, 0, 1, 2, 3, 5, 8}[r.intn(7)], rdns: r.bool(), skip: r.bool(), pubip: r.bool(), maxTTL: 2 + r.intn(7),
		timeout: time.Duration(100+r.intn(900)) * time.Millisecond, pubOK: r.intn(4) != 0, pubText: pick(r, []string{"203.0.113.7", "198.51.100.200", "2001:db8::1"})}
	if i%11 == 0 {
		c.q, c.e = 0, 0
	}
	c.viaHTTP = i%4 == 3
	c.twin = i%8 == 7
	c.prior = i%8 == 5 || i%16 == 7
	if r.intn(4) == 0 {
		// the per-query function (like the real udp/tcp drivers) ignores the context: cancellation must not lose samples
		c.cancelAt = time.Duration(1+r.intn(1500))*time.Millisecond + 777
	}
	used := map[int64]bool{0: true}
	allOK := r.intn(3) != 0
	for k := 0; k < c.q; k++ {
		q := genDocQuery(r, c.maxTTL, false, used)
		if allOK {
			q.ok = true
		}
		c.runs = append(c.runs, q)
	}
	// what repeated queries of one request really look like: the same flow (addresses and ports) every time
	if len(c.runs) > 1 && r.intn(3) == 0 {
		for k := 1; k < len(c.runs); k++ {
			c.runs[k].srcIP, c.runs[k].sport, c.runs[k].dstIP, c.runs[k].dport = c.runs[0].srcIP, c.runs[0].sport, c.runs[0].dstIP, c.runs[0].dport
		}
	}
	for k := 0; k < c.e; k++ {
		q := genDocQuery(r, c.maxTTL, true, used)
		if allOK {
			q.ok = true
		}
		c.e2es = append(c.e2es, q)
	}
	// one root cause behind several failures: the later failing queries report the TWIN of the first one's error (same text,
	// another failure).  Not through the HTTP handler: in a response body two failures that print alike cannot be told apart.
	if !c.viaHTTP && r.intn(2) == 0 {
		first := -1
		twin := func(q *docQuery) {
			if q.ok {
				return
			}
			if first < 0 {
				first = q.errID
			} else if q.errID != first {
				q.errID = first + 64
				first = -2 // one twin per case: a third identical failure would share the twin's identity
			}
		}
		for k := range c.runs {
			if first != -2 {
				twin(&c.runs[k])
			}
		}
		for k := range c.e2es {
			if first != -2 {
				twin(&c.e2es[k])
			}
		}
	}
	seen := map[string]bool{}
	add := func(ip []byte) {
		if len(ip) == 0 {
			return
		}
		cn := canonIP(ip)
		if seen[string(cn)] || r.intn(5) == 0 {
			return
		}
		seen[string(cn)] = true
		dr := docResolver{ip: cn, ok: r.intn(4) != 0}
		for k := r.intn(3); k > 0; k-- {
			dr.names = append(dr.names, fmt.Sprintf("h%d-%x.example.net.", k, cn))
		}
		c.resolver = append(c.resolver, dr)
	}
	for _, q := range c.runs {
		add(q.dstIP)
		for _, h := range q.hops {
			add(h.ip)
		}
	}
	return c
}

func labDoc(e labEnv) {
	r := newRng(e.seed)
	w, err := newCaseWriter(filepath.Join(e.out, "doc.cases"))
	must(err)
	n := 700
	if e.thorough() {
		n = 30000
	}
	tags := map[string]int{}
	for i := 0; i < n; i++ {
		c := genDocCase(r, i)
		out := runDocCase(e.t, c)
		w.put(c.input(), out)
		tags[fmt.Sprintf("q%d", c.q)]++
		tags[fmt.Sprintf("e%d", min(c.e, 5))]++
		if c.rdns {
			tags["rdns"]++
		}
		if c.skip {
			tags["skip_private"]++
		}
		if c.cancelAt > 0 {
			tags["ctx_cancelled_midway"]++
		}
		if c.prior {
			tags["after_an_earlier_request_on_the_same_object"]++
		}
		if c.viaHTTP {
			tags["via_http_handler"]++
			if c.twin {
				tags["via_http_with_overlapping_twin_request"]++
			}
		}
		if l, ok := out.(sxList); ok && len(l) > 0 {
			tags[fmt.Sprintf("status%s", sxString(l[0]))]++
		}
	}
	// kind 31: documents finished CONCURRENTLY (overlapping requests of one server process each end in Results.Normalize):
	// every test-run and run identifier handed out in the process is fresh
	//   input (31 goroutines documents_each runs_each)   impl (identifiers distinct_identifiers malformed)
	for _, g := range []int{2, 8, 16} {
		docs, runs := 3000, 2
		ids := make([][]string, g)
		var wg sync.WaitGroup
		start := make(chan struct{})
		for k := 0; k < g; k++ {
			wg.Add(1)
			go func(k int) {
				defer wg.Done()
				<-start
				for d := 0; d < docs; d++ {
					res := &result.Results{}
					for x := 0; x < runs; x++ {
						res.Traceroute.Runs = append(res.Traceroute.Runs, result.TracerouteRun{})
					}
					res.Normalize()
					ids[k] = append(ids[k], res.TestRunID)
					for x := range res.Traceroute.Runs {
						ids[k] = append(ids[k], res.Traceroute.Runs[x].RunID)
					}
				}
			}(k)
		}
		close(start)
		wg.Wait()
		seen := map[string]bool{}
		total, malformed := 0, 0
		for _, l := range ids {
			for _, id := range l {
				total++
				seen[id] = true
				if len(id) != 22 {
					malformed++
				}
			}
		}
		w.put(L(sxInt(31), sxInt(int64(g)), sxInt(int64(docs)), sxInt(int64(runs))), L(sxInt(int64(total)), sxInt(int64(len(seen))), sxInt(int64(malformed))))
		tags["identifiers_from_concurrently_finished_documents"] += total
	}
	must(w.close())
	writeDist(e, "doc", tags)
}
