package harness

import (
	"context"
	"errors"
	"net"
	"sync/atomic"
	"testing"
	"testing/synctest"
	"time"

	"github.com/DataDog/datadog-traceroute/cache"
	"github.com/DataDog/datadog-traceroute/result"
	"github.com/DataDog/datadog-traceroute/reversedns"
	"github.com/DataDog/datadog-traceroute/traceroute"
)

// ---- kind 21: how long a whole request takes -------------------------------------------------
//
// The real RunTraceroute with per-query durations scripted (each run / end-to-end probe takes what the script says),
// a resolver that answers after a delay or never (honouring the context it is given) and a public-IP fetcher that
// takes a scripted time.  Observed: elapsed virtual time and whether the request succeeded.
//
//   input (21 max_ttl timeout_ns (run_ns ...) (e2e_ns ...) fail_run rdns_ns pub_ns)
//         rdns_ns: -2 enrichment off, -1 the resolver never answers, else its answer delay; pub_ns: -2 off, else delay
//         fail_run: index of a run that fails (-1: none)
//   impl  (status elapsed_ns)

type reqFetcher struct{ d time.Duration }

func (f reqFetcher) GetIP(ctx context.Context) (net.IP, error) {
	select {
	case <-time.After(f.d):
		return net.ParseIP("198.51.100.7"), nil
	case <-ctx.Done():
		return nil, ctx.Err()
	}
}

func runReqCase(t *testing.T, maxTTL int, timeout time.Duration, runs, e2es []time.Duration, failRun int, rdns, pub time.Duration) (sx, sx) {
	var out sx
	synctest.Test(t, func(t *testing.T) {
		cache.Cache.Flush()
		var runIdx, e2eIdx atomic.Int32
		restore := traceroute.VerifSetRunOnce(func(ctx context.Context, p traceroute.TracerouteParams, port int) (*result.TracerouteRun, error) {
			var d time.Duration
			idx := -1
			if p.MinTTL == p.MaxTTL {
				if i := int(e2eIdx.Add(1)) - 1; i < len(e2es) {
					d = e2es[i]
				}
			} else {
				idx = int(runIdx.Add(1)) - 1
				if idx < len(runs) {
					d = runs[idx]
				}
			}
			time.Sleep(d)
			if idx >= 0 && idx == failRun {
				return nil, errors.New("scripted run failure")
			}
			k := byte(1 + idx)
			return &result.TracerouteRun{
				Source:      result.TracerouteSource{IPAddress: net.IP{192, 0, 2, 1}, Port: 1000},
				Destination: result.TracerouteDestination{IPAddress: net.IP{203, 0, 113, 9}, Port: uint16(port)},
				Hops:        []*result.TracerouteHop{{TTL: 1, IPAddress: net.IP{198, 51, 100, k}, RTT: 1}, {TTL: p.MaxTTL, IPAddress: net.IP{203, 0, 113, 9}, RTT: 2, IsDest: true}},
			}, nil
		})
		defer restore()
		oldLookup := reversedns.LookupAddrFn
		defer func() { reversedns.LookupAddrFn = oldLookup }()
		reversedns.LookupAddrFn = func(ctx context.Context, addr string) ([]string, error) {
			if rdns < 0 {
				<-ctx.Done()
				return nil, ctx.Err()
			}
			select {
			case <-time.After(rdns):
				return []string{"name." + addr}, nil
			case <-ctx.Done():
				return nil, ctx.Err()
			}
		}
		tr := traceroute.VerifNewTraceroute(reqFetcher{pub})
		params := traceroute.TracerouteParams{Hostname: "target.example", Port: 0, Protocol: "udp", MinTTL: 1, MaxTTL: maxTTL, Delay: 50,
			Timeout: timeout, TracerouteQueries: len(runs), E2eQueries: len(e2es), ReverseDns: rdns != -2, CollectSourcePublicIP: pub != -2}
		start := time.Now()
		status := 0
		func() {
			defer func() {
				if r := recover(); r != nil {
					status = 2
				}
			}()
			if _, err := tr.RunTraceroute(context.Background(), params); err != nil {
				status = 1
			}
		}()
		out = L(sxInt(int64(status)), sxInt(int64(time.Since(start))))
	})
	ds := func(l []time.Duration) sx {
		o := sxList{}
		for _, d := range l {
			o = append(o, sxInt(int64(d)))
		}
		return o
	}
	return L(sxInt(21), sxInt(int64(maxTTL)), sxInt(int64(timeout)), ds(runs), ds(e2es), sxInt(int64(failRun)), sxInt(int64(rdns)), sxInt(int64(pub))), out
}

func reqTimingCases(t *testing.T, r *rng, n int, w *caseWriter, tags map[string]int) {
	dur := func() time.Duration { // never two events at one instant: sub-microsecond residues
		return time.Duration(r.intn(4000))*time.Millisecond + time.Duration(1+r.intn(997))
	}
	for i := 0; i < n; i++ {
		maxTTL := pick(r, []int{2, 3, 30, 255}) // not 1: a run with MinTTL == MaxTTL is how the stub tells an end-to-end probe from a run
		timeout := pick(r, []time.Duration{10 * time.Millisecond, 100 * time.Millisecond, time.Second, 3 * time.Second})
		runs := make([]time.Duration, r.intn(4))
		for k := range runs {
			runs[k] = dur()
		}
		e2es := make([]time.Duration, pick(r, []int{0, 0, 1, 2, 5, 12}))
		for k := range e2es {
			e2es[k] = dur()
		}
		fail := -1
		if len(runs) > 0 && r.intn(5) == 0 {
			fail = r.intn(len(runs))
		}
		rdns := pick(r, []time.Duration{-2, -2, -1, dur(), 4999*time.Millisecond + 7, 5001*time.Millisecond + 3, 9 * time.Second})
		pub := pick(r, []time.Duration{-2, -2, dur(), 6*time.Second + 11})
		in, out := runReqCase(t, maxTTL, timeout, runs, e2es, fail, rdns, pub)
		w.put(in, out)
		tags["request_timing"]++
		if rdns == -1 {
			tags["request_timing:resolver_never_answers"]++
		}
	}
}
