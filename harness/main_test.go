package harness

import (
	"fmt"
	"os"
	"runtime"
	"strconv"
	"testing"
	"time"
)

// TestLab is the single entry point: VERIF_LAB selects the property lab,
// VERIF_OUT the directory its case files go to, VERIF_SEED the PRNG seed and
// VERIF_TIER quick|thorough the volume.
type labEnv struct {
	out   string
	seed  uint64
	tier  string
	t     *testing.T
}

func (e labEnv) thorough() bool { return e.tier == "thorough" }

var labs = map[string]func(e labEnv){}

func TestLab(t *testing.T) {
	name := os.Getenv("VERIF_LAB")
	if name == "" {
		t.Skip("VERIF_LAB not set")
	}
	fn, ok := labs[name]
	if !ok {
		t.Fatalf("unknown lab %q", name)
	}
	seed := uint64(1)
	if s := os.Getenv("VERIF_SEED"); s != "" {
		if v, err := strconv.ParseUint(s, 10, 64); err == nil {
			seed = v
		}
	}
	tier := os.Getenv("VERIF_TIER")
	if tier == "" {
		tier = "quick"
	}
	out := os.Getenv("VERIF_OUT")
	if out == "" {
		t.Fatal("VERIF_OUT not set")
	}
	must(os.MkdirAll(out, 0o755))
	// watchdog on the real clock (outside every synctest bubble): a lab that keeps allocating — a change to the code
	// under test can turn a bounded loop into an endless one — is stopped before it exhausts the machine
	go func() {
		var ms runtime.MemStats
		for {
			time.Sleep(500 * time.Millisecond)
			runtime.ReadMemStats(&ms)
			if ms.Sys > 8<<30 {
				fmt.Fprintf(os.Stderr, "harness: lab %s exceeded its memory budget (%d MiB): runaway run\n", name, ms.Sys>>20)
				os.Exit(3)
			}
		}
	}()
	fn(labEnv{out: out, seed: seed, tier: tier, t: t})
}
