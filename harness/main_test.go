package harness

import (
	"encoding/json"
	"fmt"
	"os"
	"path/filepath"
	"runtime"
	"strconv"
	"sync"
	"testing"
	"time"
)

// TestLab is the single entry point: VERIF_LAB selects the property lab,
// VERIF_OUT the directory its case files go to, VERIF_SEED the PRNG seed and
// VERIF_TIER quick|thorough the volume.
type labEnv struct {
	out  string
	seed uint64
	tier string
	t    *testing.T
}

func (e labEnv) thorough() bool { return e.tier == "thorough" }

var labs = map[string]func(e labEnv){}

func TestLab(t *testing.T) {
	name := os.Getenv("VERIF_LAB")
	if name == "" {
		t.Skip("VERIF_LAB not set")
	}
	fn, ok := labs[name]
	if !ok {
		t.Fatalf("unknown lab %q", name)
	}
	seed := uint64(1)
	if s := os.Getenv("VERIF_SEED"); s != "" {
		if v, err := strconv.ParseUint(s, 10, 64); err == nil {
			seed = v
		}
	}
	tier := os.Getenv("VERIF_TIER")
	if tier == "" {
		tier = "quick"
	}
	out := os.Getenv("VERIF_OUT")
	if out == "" {
		t.Fatal("VERIF_OUT not set")
	}
	must(os.MkdirAll(out, 0o755))
	// watchdog on the real clock (outside every synctest bubble): a lab that keeps allocating — a change to the code
	// under test can turn a bounded loop into an endless one — is stopped before it exhausts the machine
	go func() {
		var ms runtime.MemStats
		for {
			time.Sleep(500 * time.Millisecond)
			runtime.ReadMemStats(&ms)
			if ms.Sys > 8<<30 {
				fmt.Fprintf(os.Stderr, "harness: lab %s exceeded its memory budget (%d MiB): runaway run\n", name, ms.Sys>>20)
				os.Exit(3)
			}
		}
	}()
	// second watchdog, also on the real clock: a lab whose cases stop completing although the process is idle is a run that
	// does not end (for instance goroutines parked on a lock no clock will ever release).  It records the last case that
	// did complete - the one after it is the one that hangs - and the goroutine dump, and stops the process.
	noteProgress("")
	stall := 120 * time.Second
	if s := os.Getenv("VERIF_STALL_S"); s != "" {
		if v, err := strconv.Atoi(s); err == nil && v > 0 {
			stall = time.Duration(v) * time.Second
		}
	}
	go func() {
		// cases complete inside synctest bubbles, where time.Now is the bubble's virtual clock: the watchdog therefore only
		// reads a counter and does all timekeeping itself, out here on the real clock
		seen, since := -1, time.Now()
		for {
			time.Sleep(2 * time.Second)
			progressMu.Lock()
			n, last := progressN, progressLast
			progressMu.Unlock()
			if n != seen {
				seen, since = n, time.Now()
			}
			idle := time.Since(since)
			if idle > stall {
				buf := make([]byte, 1<<20)
				buf = buf[:runtime.Stack(buf, true)]
				if len(buf) > 12000 {
					buf = buf[:12000]
				}
				js, _ := json.Marshal(map[string]any{"lab": name, "cases_completed": n, "last_completed_case": last, "idle_seconds": int(idle.Seconds()), "goroutines": string(buf)})
				_ = os.WriteFile(filepath.Join(out, name+".hang.json"), js, 0o644)
				fmt.Fprintf(os.Stderr, "harness: lab %s made no progress for %v after %d cases: a run does not end\n", name, idle.Round(time.Second), n)
				os.Exit(4)
			}
		}
	}()
	fn(labEnv{out: out, seed: seed, tier: tier, t: t})
}

var (
	progressMu   sync.Mutex
	progressN    int
	progressLast string
)

func noteProgress(c string) {
	progressMu.Lock()
	progressN++
	if c != "" {
		if len(c) > 2000 {
			c = c[:2000]
		}
		progressLast = c
	}
	progressMu.Unlock()
}
