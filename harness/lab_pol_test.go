package harness

import (
	"context"
	"errors"
	"fmt"
	"io"
	"net"
	"net/http"
	"path/filepath"
	"strings"
	"sync"
	"testing"
	"testing/synctest"
	"time"

	"github.com/cenkalti/backoff/v5"
	gocache "github.com/patrickmn/go-cache"

	"github.com/DataDog/datadog-traceroute/cache"
	"github.com/DataDog/datadog-traceroute/publicip"
	"github.com/DataDog/datadog-traceroute/reversedns"
)

func init() {
	labs["pol"] = labPol
	// the process-wide cache's janitor runs on the real clock and would purge entries stamped with
	// a bubble's virtual time; same cache type and default expiry, no janitor
	cache.Cache = gocache.New(5*time.Minute, 0)
}

// ---- kind 3: cache operation sequences -------------------------------------

type cacheOp struct {
	dt     time.Duration // advance before the call
	key    int
	ok     bool
	val    int64
	expire time.Duration
}

func runCacheCase(t *testing.T, ops []cacheOp) (sx, sx) {
	in, out := sxList{}, sxList{}
	synctest.Test(t, func(t *testing.T) {
		cache.Cache = gocache.New(5*time.Minute, 0)
		t0 := time.Now()
		for _, o := range ops {
			time.Sleep(o.dt)
			called := false
			v, err := cache.GetWithExpiration(fmt.Sprintf("k%d", o.key), func() (int64, error) {
				called = true
				if !o.ok {
					return 0, errors.New("callback failed")
				}
				return o.val, nil
			}, o.expire)
			in = append(in, L(sxInt(int64(time.Since(t0))), sxInt(int64(o.key)), sxBool(o.ok), sxInt(o.val), sxInt(int64(o.expire))))
			if err != nil {
				out = append(out, L(sxInt(0), sxInt(0), sxBool(called)))
			} else {
				out = append(out, L(sxInt(1), sxInt(v), sxBool(called)))
			}
		}
	})
	return L(sxInt(3), sxInt(int64(5*time.Minute)), in), out
}

func genCacheOps(r *rng) []cacheOp {
	n := 2 + r.intn(10)
	exps := []time.Duration{-1, 0, time.Second, 90 * time.Second, time.Hour}
	var ops []cacheOp
	lastExp := map[int]time.Duration{}
	for i := 0; i < n; i++ {
		o := cacheOp{key: r.intn(3), ok: r.intn(4) != 0, val: int64(100 + r.intn(900)), expire: pick(r, exps)}
		switch r.intn(6) {
		case 0:
			o.dt = 0
		case 1: // land exactly on / just after the key's pending expiry
			if d, ok := lastExp[o.key]; ok && d > 0 {
				o.dt = d
				if r.bool() {
					o.dt++
				}
			}
		case 2:
			o.dt = 5*time.Minute + time.Duration(r.intn(3)) - 1
		default:
			o.dt = time.Duration(r.intn(120)) * time.Second
		}
		e := o.expire
		if e == 0 {
			e = 5 * time.Minute
		}
		lastExp[o.key] = e
		ops = append(ops, o)
	}
	return ops
}

// ---- kind 4: provider iteration ---------------------------------------------

type attempt struct {
	kind   int // 0 resp, 1 transport error, 2 body error, 3 hang
	delay  time.Duration
	status int
	valid  bool
}

func (a attempt) sx() sx {
	return L(sxInt(int64(a.kind)), sxInt(int64(a.delay)), sxInt(int64(a.status)), sxBool(a.valid))
}

type scriptedRT struct {
	mu      sync.Mutex
	scripts [][]attempt
	counts  []int
}

type errBody struct{}

func (errBody) Read([]byte) (int, error) { return 0, errors.New("connection reset while reading body") }
func (errBody) Close() error             { return nil }

const hangGuard = time.Hour // a request nobody cancels ends by itself after this long (virtual)

func (rt *scriptedRT) RoundTrip(req *http.Request) (*http.Response, error) {
	var idx int
	fmt.Sscanf(req.URL.Host, "p%d.test", &idx)
	rt.mu.Lock()
	k := rt.counts[idx]
	rt.counts[idx]++
	a := attempt{kind: 3}
	if k < len(rt.scripts[idx]) {
		a = rt.scripts[idx][k]
	}
	rt.mu.Unlock()
	wait := a.delay
	if a.kind == 3 {
		wait = hangGuard
	}
	tm := time.NewTimer(wait)
	defer tm.Stop()
	select {
	case <-tm.C:
	case <-req.Context().Done():
		return nil, req.Context().Err()
	}
	switch a.kind {
	case 0:
		body := "not an address"
		if a.valid {
			body = fmt.Sprintf("  203.0.113.%d\n", idx+1)
		}
		return &http.Response{StatusCode: a.status, Status: fmt.Sprintf("%d status", a.status), Body: io.NopCloser(strings.NewReader(body)), Header: http.Header{}, Request: req}, nil
	case 2:
		return &http.Response{StatusCode: 200, Status: "200 OK", Body: errBody{}, Header: http.Header{}, Request: req}, nil
	default:
		return nil, errors.New("scripted transport error")
	}
}

func runProviderCase(t *testing.T, scripts [][]attempt) (sx, sx) {
	var out sx
	synctest.Test(t, func(t *testing.T) {
		urls := make([]string, len(scripts))
		for i := range scripts {
			urls[i] = fmt.Sprintf("http://p%d.test/", i)
		}
		restore := publicip.VerifSetIPCheckers(urls)
		defer restore()
		rt := &scriptedRT{scripts: scripts, counts: make([]int, len(scripts))}
		bo := backoff.NewExponentialBackOff()
		bo.InitialInterval = 500 * time.Millisecond
		bo.MaxInterval = 3 * time.Second
		bo.RandomizationFactor = 0
		t0 := time.Now()
		ip, err := publicip.GetPublicIP(context.Background(), &http.Client{Transport: rt}, bo)
		el := time.Since(t0)
		winner := -1
		if err == nil {
			if v4 := ip.To4(); v4 != nil && v4[0] == 203 {
				winner = int(v4[3]) - 1
			} else {
				winner = -2
			}
		}
		cs := sxList{}
		for _, c := range rt.counts {
			cs = append(cs, sxInt(int64(c)))
		}
		out = L(sxInt(int64(winner)), cs, sxInt(int64(el)))
	})
	ss := sxList{}
	for _, s := range scripts {
		as := sxList{}
		for _, a := range s {
			as = append(as, a.sx())
		}
		ss = append(ss, as)
	}
	return L(sxInt(4), sxInt(publicip.VerifIPCheckerCallTimeoutNs), sxInt(int64(500*time.Millisecond)), sxInt(int64(3*time.Second)), ss), out
}

func genProviderScripts(r *rng) [][]attempt {
	np := 1 + r.intn(5)
	var scripts [][]attempt
	for i := 0; i < np; i++ {
		var s []attempt
		for k := r.intn(5); k >= 0; k-- {
			a := attempt{delay: time.Duration(r.intn(900))*time.Millisecond + time.Duration(1+r.intn(99)), status: 200}
			if r.intn(8) == 0 {
				a.delay += time.Duration(1+r.intn(3)) * time.Second // slower than the per-provider deadline
			}
			switch r.intn(9) {
			case 0, 1:
				a.kind, a.valid = 0, true
				a.status = pick(r, []int{200, 200, 204, 301, 399, 500, 503})
			case 2:
				a.kind, a.valid = 0, r.bool()
				a.status = pick(r, []int{400, 403, 404, 429, 499})
			case 3:
				a.kind, a.valid = 0, false
				a.status = pick(r, []int{200, 500})
			case 4:
				a.kind = 2
			case 5:
				a.kind = 3
			default:
				a.kind = 1
			}
			s = append(s, a)
		}
		scripts = append(scripts, s)
	}
	return scripts
}

// ---- kind 5: reverse DNS against a stalled resolver --------------------------

func runRdnsCase(t *testing.T, delays []time.Duration) (sx, sx) {
	var out sx
	synctest.Test(t, func(t *testing.T) {
		cache.Cache = gocache.New(5*time.Minute, 0)
		old := reversedns.LookupAddrFn
		defer func() { reversedns.LookupAddrFn = old }()
		byAddr := map[string]time.Duration{}
		var ips []net.IP
		for i, d := range delays {
			ip := net.IPv4(198, 51, 100, byte(i+1))
			ips = append(ips, ip)
			byAddr[ip.String()] = d
		}
		reversedns.LookupAddrFn = func(ctx context.Context, addr string) ([]string, error) {
			d := byAddr[addr]
			if d < 0 {
				d = hangGuard
			}
			tm := time.NewTimer(d)
			defer tm.Stop()
			select {
			case <-tm.C:
				return []string{"name-of-" + addr}, nil
			case <-ctx.Done():
				return nil, ctx.Err()
			}
		}
		t0 := time.Now()
		m, err := reversedns.GetReverseDnsForIPs(ips)
		el := time.Since(t0)
		got := sxList{}
		for _, ip := range ips {
			got = append(got, sxBool(len(m[string(ip)]) > 0))
		}
		out = L(sxBool(err == nil), got, sxInt(int64(el)))
	})
	ds := sxList{}
	for _, d := range delays {
		ds = append(ds, sxInt(int64(d)))
	}
	return L(sxInt(5), sxInt(int64(5*time.Second)), ds), out
}

// ---- kind 6: reverse-DNS lookups of the same addresses over time (the DNS cache) ----

type rdnsOp struct {
	dt   time.Duration
	addr int
	kind int // 0 names, 1 plain error, 2 DNS not-found, 3 DNS timeout
	val  int64
}

func runRdnsCacheCase(t *testing.T, ops []rdnsOp) (sx, sx) {
	in, out := sxList{}, sxList{}
	synctest.Test(t, func(t *testing.T) {
		cache.Cache = gocache.New(5*time.Minute, 0)
		old := reversedns.LookupAddrFn
		defer func() { reversedns.LookupAddrFn = old }()
		t0 := time.Now()
		for _, o := range ops {
			time.Sleep(o.dt)
			called := false
			reversedns.LookupAddrFn = func(ctx context.Context, addr string) ([]string, error) {
				called = true
				switch o.kind {
				case 0:
					return []string{fmt.Sprintf("n%d", o.val)}, nil
				case 2:
					return nil, &net.DNSError{Err: "no such host", Name: addr, IsNotFound: true}
				case 3:
					return nil, &net.DNSError{Err: "i/o timeout", Name: addr, IsTimeout: true}
				default:
					return nil, errors.New("resolver failed")
				}
			}
			names, err := reversedns.GetReverseDnsForIP(net.IPv4(192, 0, 2, byte(1+o.addr)))
			ok := int64(0)
			if o.kind == 0 {
				ok = 1
			}
			in = append(in, L(sxInt(int64(time.Since(t0))), sxInt(int64(o.addr)), sxInt(ok), sxInt(o.val), sxInt(0)))
			if err != nil || len(names) != 1 {
				// an error, or an "answer" without any name
				code := int64(0)
				if err == nil {
					code = 2
				}
				out = append(out, L(sxInt(code), sxInt(0), sxBool(called)))
			} else {
				var v int64
				fmt.Sscanf(names[0], "n%d", &v)
				out = append(out, L(sxInt(1), sxInt(v), sxBool(called)))
			}
		}
	})
	return L(sxInt(6), in), out
}

// ---- kind 28: PublicIPFetcher.GetIP histories (the cache in front of provider discovery) ----------------

type pubOp struct {
	dt   time.Duration
	kind int // 0: the provider answers with address 198.51.100.<val>; 1: it answers 404 (final); 2: every attempt fails in transport
	val  int64
}

type pubRT struct {
	mu    sync.Mutex
	op    pubOp
	calls int
}

func (rt *pubRT) RoundTrip(req *http.Request) (*http.Response, error) {
	rt.mu.Lock()
	op := rt.op
	rt.calls++
	rt.mu.Unlock()
	mk := func(code int, body string) *http.Response {
		return &http.Response{StatusCode: code, Status: fmt.Sprintf("%d", code), Body: io.NopCloser(strings.NewReader(body)), Header: http.Header{}, Request: req}
	}
	switch op.kind {
	case 0:
		return mk(200, fmt.Sprintf("198.51.100.%d\n", op.val)), nil
	case 1:
		return mk(404, "not found"), nil
	default:
		return nil, errors.New("connection reset")
	}
}

func runPubCacheCase(t *testing.T, ops []pubOp) (sx, sx) {
	in, out := sxList{}, sxList{}
	synctest.Test(t, func(t *testing.T) {
		cache.Cache = gocache.New(5*time.Minute, 0)
		restore := publicip.VerifSetIPCheckers([]string{"http://p1.invalid/"})
		defer restore()
		rt := &pubRT{}
		f := publicip.VerifNewFetcher(rt)
		t0 := time.Now()
		for _, o := range ops {
			time.Sleep(o.dt)
			rt.mu.Lock()
			rt.op, rt.calls = o, 0
			rt.mu.Unlock()
			at := time.Since(t0)
			ip, err := f.GetIP(context.Background())
			rt.mu.Lock()
			called := rt.calls > 0
			rt.mu.Unlock()
			ok := int64(0)
			if o.kind == 0 {
				ok = 1
			}
			in = append(in, L(sxInt(int64(at)), sxInt(0), sxInt(ok), sxInt(o.val), sxInt(0)))
			if err != nil || ip == nil {
				code := int64(0)
				if err == nil {
					code = 2
				}
				out = append(out, L(sxInt(code), sxInt(0), sxBool(called)))
			} else {
				v := int64(-1)
				if v4 := ip.To4(); v4 != nil && v4[0] == 198 && v4[1] == 51 && v4[2] == 100 {
					v = int64(v4[3])
				}
				out = append(out, L(sxInt(1), sxInt(v), sxBool(called)))
			}
		}
	})
	return L(sxInt(28), in), out
}

func labPol(e labEnv) {
	r := newRng(e.seed)
	w, err := newCaseWriter(filepath.Join(e.out, "pol.cases"))
	must(err)
	n := 400
	if e.thorough() {
		n = 16000
	}
	tags := map[string]int{}
	for i := 0; i < n; i++ {
		in, out := runCacheCase(e.t, genCacheOps(r))
		w.put(in, out)
		tags["cache_sequences"]++
	}
	for i := 0; i < n; i++ {
		sc := genProviderScripts(r)
		in, out := runProviderCase(e.t, sc)
		w.put(in, out)
		tags[fmt.Sprintf("providers_%d", len(sc))]++
	}
	for i := 0; i < n/4; i++ {
		var ds []time.Duration
		for k := 1 + r.intn(5); k > 0; k-- {
			switch r.intn(4) {
			case 0:
				ds = append(ds, -1) // never answers
			case 1:
				ds = append(ds, time.Duration(5+r.intn(5))*time.Second+time.Duration(1+r.intn(99)))
			default:
				ds = append(ds, time.Duration(r.intn(4999))*time.Millisecond+time.Duration(1+r.intn(99)))
			}
		}
		in, out := runRdnsCase(e.t, ds)
		w.put(in, out)
		tags["rdns_stall"]++
	}
	for i := 0; i < n/2; i++ {
		var ops []rdnsOp
		for k := 2 + r.intn(8); k > 0; k-- {
			o := rdnsOp{addr: r.intn(2), kind: []int{0, 0, 1, 2, 2, 3}[r.intn(6)], val: int64(100 + r.intn(900))}
			switch r.intn(6) {
			case 5:
				o.dt = time.Duration(1+r.intn(4000)) * time.Millisecond // well inside any sensible lifetime
			case 0:
				o.dt = time.Hour + time.Duration(r.intn(3)) - 1 // around the DNS cache lifetime
			case 1:
				o.dt = 0
			default:
				o.dt = time.Duration(r.intn(1800)) * time.Second
			}
			ops = append(ops, o)
		}
		in, out := runRdnsCacheCase(e.t, ops)
		w.put(in, out)
		tags["rdns_cache_sequences"]++
	}
	for i := 0; i < n/4; i++ {
		var ops []pubOp
		for k := 2 + r.intn(6); k > 0; k-- {
			o := pubOp{kind: []int{0, 0, 0, 1, 2}[r.intn(5)], val: int64(1 + r.intn(200))}
			switch r.intn(5) {
			case 0:
				o.dt = 2*time.Hour + time.Duration(r.intn(3)) - 1 // around the public-IP cache lifetime
			case 1:
				o.dt = 3 * time.Hour
			case 2:
				o.dt = 0
			default:
				o.dt = time.Duration(1+r.intn(3600)) * time.Second
			}
			ops = append(ops, o)
		}
		in, out := runPubCacheCase(e.t, ops)
		w.put(in, out)
		tags["public_ip_cache_sequences"]++
	}
	hsTimedCases(e.t, r, n/2, w, tags)
	reqTimingCases(e.t, r, n/2, w, tags)
	must(w.close())
	writeDist(e, "pol", tags)
}
