package harness

import (
	"bytes"
	"errors"
	"os"
	"time"

	"golang.org/x/sys/unix"

	"github.com/DataDog/datadog-traceroute/packets"
)

// ---- kind 30: histories of filter installations on ONE real AF_PACKET source ----------------------------------
//
// The repository's afPacketSource (its SetPacketFilter: drop-all, drain, attach; its Read) runs on one end of a datagram
// socketpair instead of an AF_PACKET socket: the kernel runs the attached classic-BPF program over every datagram from
// its first byte, so a whole Ethernet frame sent as one datagram is, for the filter and for Read, a frame arriving on the
// wire.  After every installation of a history a set of frames is put on the wire and what Read hands out is noted.
//
//	input (30 ((type src dst sport dport) ...) frame [1])  the installations so far, oldest first; type: 0 none 1 icmp 2 udp 3 tcp 4 synack;
//	                                                       a trailing 1: the frame arrived before the LAST installation and had not been read
//	impl  (captured)                                      1: Read handed the frame out after the LAST installation
type histSpec struct {
	typ int
	cfg tcpCfg
}

func (h histSpec) spec() packets.PacketFilterSpec {
	switch h.typ {
	case 1:
		return packets.PacketFilterSpec{FilterType: packets.FilterTypeICMP}
	case 2:
		return packets.PacketFilterSpec{FilterType: packets.FilterTypeUDP}
	case 3:
		return h.cfg.spec()
	case 4:
		s := h.cfg.spec()
		s.FilterType = packets.FilterTypeSYNACK
		s.FilterConfig.Dst = s.FilterConfig.Dst // (the SYN-ACK filter only carries the target)
		return s
	}
	return packets.PacketFilterSpec{FilterType: packets.FilterTypeNone}
}

func (h histSpec) sx() sx {
	return L(sxInt(int64(h.typ)), sxInt(int64(h.cfg.srcU32())), sxInt(int64(h.cfg.dstU32())), sxInt(int64(h.cfg.sport)), sxInt(int64(h.cfg.dport)))
}

func c12Histories(r *rng, w *caseWriter, tags map[string]int, n int) {
	target := a4(198, 51, 100, 7)
	local := a4(192, 0, 2, 2)
	for i := 0; i < n; i++ {
		fds, err := unix.Socketpair(unix.AF_UNIX, unix.SOCK_DGRAM|unix.SOCK_NONBLOCK|unix.SOCK_CLOEXEC, 0)
		must(err)
		src := packets.VerifNewAFPacketSourceOn(os.NewFile(uintptr(fds[0]), "lab-capture"))
		peer := fds[1]
		// the runs that use this source one after the other: same target and port, each its own reserved local port (and now
		// and then another target)
		var hist []histSpec
		var cfgs []tcpCfg
		var pending [][]byte // frames of the previous step that were left in the socket (sent, never read)
		steps := 2 + r.intn(3)
		for s := 0; s < steps; s++ {
			c := tcpCfg{src: target, dst: local, sport: 443, dport: uint16(40001 + r.intn(3))}
			if r.intn(5) == 0 {
				c.src = a4(198, 51, 100, byte(8+r.intn(2)))
			}
			typ := []int{3, 3, 3, 3, 4, 1, 0, 2}[r.intn(8)]
			if typ == 0 && (s == 0 || hist[s-1].typ == 0) {
				typ = 3 // detaching when nothing is attached is an error of the kernel's (ENOENT), not a history of interest
			}
			if i < 4 {
				// pinned: two tuple filters in a row for the same target, different local ports (and back)
				typ = 3
				c = tcpCfg{src: target, dst: local, sport: 443, dport: uint16(40001 + (s+i)%2)}
			}
			hist = append(hist, histSpec{typ, c})
			cfgs = append(cfgs, c)
			if err := src.SetPacketFilter(hist[s].spec()); err != nil {
				must(err)
			}
			// frames: the target's SYN-ACK to every local endpoint seen so far and to one never asked for, a time-exceeded, a datagram
			var frames [][]byte
			seen := map[tcpCfg]bool{}
			for _, c := range append(append([]tcpCfg(nil), cfgs...), tcpCfg{src: target, dst: local, sport: 443, dport: 40009}) {
				if seen[c] {
					continue
				}
				seen[c] = true
				seg := buildTCP4(tcpHdr{sport: c.sport, dport: c.dport, seq: 1000, ack: 2001, flags: 0x12, win: 512}, nil, c.src, c.dst)
				frames = append(frames, etherFrame(buildIP4(ip4Hdr{ttl: 57, proto: 6, src: c.src, dst: c.dst, id: uint16(100*(s+1) + len(frames))}, seg)))
			}
			// (the step number is in every frame - IP identification, quoted identification - so the frames of different steps differ)
			q := buildIP4(ip4Hdr{ttl: 1, proto: 17, src: local, dst: target, id: uint16(7 + 100*(s+1))}, buildUDP4(40001, 33434, []byte("xy"), local, target))
			frames = append(frames, etherFrame(te4([4]byte{10, 0, 0, 1}, local, 11, 0, q[:28], nil, [4]byte{})))
			frames = append(frames, etherFrame(buildIP4(ip4Hdr{ttl: 60, proto: 17, src: target, dst: local, id: uint16(9 + 100*(s+1))}, buildUDP4(53, 40001, []byte("zz"), target, local))))
			for _, f := range frames {
				must(unix.Send(peer, f, 0))
			}
			if i >= 4 && s < steps-1 && r.intn(3) == 0 {
				// this step's frames stay in the socket: the next installation finds them there
				pending = frames
				tags["source_history_frames_left_unread"] += len(frames)
				continue
			}
			got := make([]bool, len(frames))
			gotStale := make([]bool, len(pending))
			buf := make([]byte, 2048)
			for {
				must(src.SetReadDeadline(time.Now().Add(15 * time.Millisecond)))
				k, err := src.Read(buf)
				if errors.Is(err, os.ErrDeadlineExceeded) {
					break
				}
				must(err)
				for j, f := range frames {
					if bytes.Equal(buf[:k], f[14:]) {
						got[j] = true
					}
				}
				for j, f := range pending {
					if bytes.Equal(buf[:k], f[14:]) {
						gotStale[j] = true
					}
				}
			}
			hs := sxList{}
			for _, h := range hist {
				hs = append(hs, h.sx())
			}
			for j, f := range frames {
				w.put(L(sxInt(30), hs, sxBytes(f)), L(sxBool(got[j])))
				tags["source_history_frames"]++
			}
			// a frame that arrived BEFORE the last installation (under the filter before it) and was still in the socket
			for j, f := range pending {
				w.put(L(sxInt(30), hs, sxBytes(f), sxInt(1)), L(sxBool(gotStale[j])))
				tags["source_history_stale_frames"]++
			}
			pending = nil
			tags["source_history_installs"]++
		}
		src.Close()
		unix.Close(peer)
	}
}
