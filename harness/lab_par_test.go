package harness

import (
	"context"
	"encoding/binary"
	"encoding/json"
	"errors"
	"fmt"
	"net"
	"net/http"
	"net/http/httptest"
	"net/netip"
	"net/url"
	"os"
	"path/filepath"
	"sort"
	"strconv"
	"strings"
	"sync"
	"sync/atomic"
	"testing"
	"testing/synctest"
	"time"

	"github.com/DataDog/datadog-traceroute/cmd"
	"github.com/DataDog/datadog-traceroute/packets"
	"github.com/DataDog/datadog-traceroute/result"
	"github.com/DataDog/datadog-traceroute/sack"
	"github.com/DataDog/datadog-traceroute/server"
	"github.com/DataDog/datadog-traceroute/traceroute"
)

func init() { labs["par"] = labPar }

// ---- simulated-wire factory behind packets.NewSourceSink ---------------------------------

type wireHandle struct {
	src *simSource
	snk *simSink
}

type wireFactory struct {
	mu      sync.Mutex
	handles []*wireHandle
	faults  *faultPlan
	onNew   func(h *wireHandle)
	failNew error
}

func (f *wireFactory) install() func() {
	packets.VerifSetSourceSinkFactory(func(addr netip.Addr, useDriver bool) (packets.SourceSinkHandle, error) {
		if err, _ := f.faults.hit("NewSourceSink"); err != nil {
			return packets.SourceSinkHandle{}, err
		}
		h := &wireHandle{src: newSimSource(f.faults), snk: newSimSink(f.faults)}
		f.mu.Lock()
		f.handles = append(f.handles, h)
		cb := f.onNew
		f.mu.Unlock()
		if cb != nil {
			cb(h)
		}
		return packets.SourceSinkHandle{Source: h.src, Sink: h.snk}, nil
	})
	return func() { packets.VerifSetSourceSinkFactory(nil) }
}

func (f *wireFactory) allSent() []outPkt {
	f.mu.Lock()
	defer f.mu.Unlock()
	var out []outPkt
	for _, h := range f.handles {
		out = append(out, h.snk.sent()...)
	}
	return out
}

// wireSummary: what was on the wire, per packet (ttl, ip proto, destination address, destination port, tcp flags).
type wirePkt struct {
	ttl, proto, dport, flags int
	dst                      []byte
}

func summarize(pkts []outPkt) []wirePkt {
	var out []wirePkt
	for _, p := range pkts {
		b := p.data
		var w wirePkt
		var l4 []byte
		if len(b) >= 20 && b[0]>>4 == 4 {
			w.ttl, w.proto, w.dst = int(b[8]), int(b[9]), b[16:20]
			l4 = b[int(b[0]&0xf)*4:]
		} else if len(b) >= 40 && b[0]>>4 == 6 {
			w.ttl, w.proto, w.dst = int(b[7]), int(b[6]), b[24:40]
			l4 = b[40:]
		} else {
			w.proto = -1
		}
		if (w.proto == 6 || w.proto == 17) && len(l4) >= 4 {
			w.dport = int(l4[2])<<8 | int(l4[3])
		}
		if w.proto == 6 && len(l4) >= 14 {
			w.flags = int(l4[13])
		}
		out = append(out, w)
	}
	return out
}

type nullFetcher struct{}

func (nullFetcher) GetIP(ctx context.Context) (net.IP, error) { return nil, errors.New("unused") }

// ---- kind 8: RunTraceroute with a parameter set ------------------------------------------

type parCase struct {
	proto, method  string
	minTTL, maxTTL int
	port           int
	v6             bool
	viaCLI         bool // the same request through the command line (cobra flags), MinTTL is always 1 there
}

func protoCode(s string) int {
	switch s {
	case "udp":
		return 0
	case "tcp":
		return 1
	case "icmp":
		return 2
	}
	return 3
}
func methodCode(s string) int {
	switch s {
	case "":
		return 0
	case "syn":
		return 1
	case "sack":
		return 2
	case "prefer_sack":
		return 3
	case "syn_socket":
		return 4
	}
	return 5
}

func runParCase(t *testing.T, c parCase) (sx, sx) {
	var out sx
	synctest.Test(t, func(t *testing.T) {
		f := &wireFactory{}
		defer f.install()()
		host := "127.0.0.1"
		if c.v6 {
			host = "::1"
		}
		tr := traceroute.VerifNewTraceroute(nullFetcher{})
		p := traceroute.TracerouteParams{Hostname: host, Port: c.port, Protocol: c.proto, MinTTL: c.minTTL, MaxTTL: c.maxTTL, Delay: 1, Timeout: 30 * time.Millisecond,
			TCPMethod: traceroute.TCPMethod(c.method), WantV6: c.v6, TracerouteQueries: 1}
		status := 0
		var res *result.Results
		func() {
			defer func() {
				if r := recover(); r != nil {
					status = 2
				}
			}()
			var err error
			if c.viaCLI {
				args := []string{host, "--proto", c.proto, "--max-ttl", strconv.Itoa(c.maxTTL), "--port", strconv.Itoa(c.port), "--tcp-method", c.method,
					"--timeout", "30", "--traceroute-queries", "1", "--e2e-queries", "0", fmt.Sprintf("--ipv6=%v", c.v6),
					"--reverse-dns=false", "--source-public-ip=false", "--skip-private-hops=false", "--verbose=false", "--windows-driver=false"}
				var doc map[string]any
				doc, err = runCLI(args)
				if err == nil {
					res = cliResults(doc)
				}
			} else {
				res, err = tr.RunTraceroute(context.Background(), p)
			}
			if err != nil {
				status = 1
			}
		}()
		ws := summarize(f.allSent())
		ttls := sxList{}
		protos, dports := map[int]bool{}, map[int]bool{}
		dstOK := true
		want := net.ParseIP(host)
		for _, w := range ws {
			ttls = append(ttls, sxInt(int64(w.ttl)))
			protos[w.proto] = true
			dports[w.dport] = true
			if !net.IP(w.dst).Equal(want) {
				dstOK = false
			}
		}
		keys := func(m map[int]bool) sxList {
			ks := []int{}
			for k := range m {
				ks = append(ks, k)
			}
			sort.Ints(ks)
			l := sxList{}
			for _, k := range ks {
				l = append(l, sxInt(int64(k)))
			}
			return l
		}
		nh, rport := 0, 0
		if res != nil && len(res.Traceroute.Runs) == 1 {
			nh = len(res.Traceroute.Runs[0].Hops)
			rport = res.Destination.Port
		}
		out = L(sxInt(int64(status)), ttls, keys(protos), keys(dports), sxBool(dstOK), sxInt(int64(nh)), sxInt(int64(rport)))
	})
	return L(sxInt(8), sxInt(int64(protoCode(c.proto))), sxInt(int64(methodCode(c.method))), sxInt(int64(c.minTTL)), sxInt(int64(c.maxTTL)), sxInt(int64(c.port)), sxBool(c.v6)), out
}

// runCLI drives the real cobra command; its JSON output on stdout is captured through a pipe.
var cliMu sync.Mutex

func runCLI(args []string) (map[string]any, error) {
	cliMu.Lock()
	defer cliMu.Unlock()
	// a regular file, not a pipe: a goroutine parked on pipe I/O would keep the synctest bubble from ever being
	// durably blocked, and the virtual clock from advancing
	tmp, err := os.CreateTemp("", "verif-cli-*.json")
	must(err)
	defer os.Remove(tmp.Name())
	old := os.Stdout
	os.Stdout = tmp
	runErr := cmd.VerifExecute(args)
	os.Stdout = old
	tmp.Close()
	if runErr != nil {
		return nil, runErr
	}
	b, err := os.ReadFile(tmp.Name())
	must(err)
	var doc map[string]any
	if err := json.Unmarshal(b, &doc); err != nil {
		return nil, fmt.Errorf("CLI printed no JSON document: %w", err)
	}
	return doc, nil
}

// cliResults rebuilds what the lab looks at (number of hops of the single run, destination port) from the CLI's JSON
func cliResults(doc map[string]any) *result.Results {
	r := &result.Results{}
	if d, ok := doc["destination"].(map[string]any); ok {
		if p, ok := d["port"].(float64); ok {
			r.Destination.Port = int(p)
		}
	}
	if tr, ok := doc["traceroute"].(map[string]any); ok {
		if runs, ok := tr["runs"].([]any); ok {
			for _, ru := range runs {
				run := result.TracerouteRun{}
				if rm, ok := ru.(map[string]any); ok {
					if hs, ok := rm["hops"].([]any); ok {
						for range hs {
							run.Hops = append(run.Hops, &result.TracerouteHop{})
						}
					}
				}
				r.Traceroute.Runs = append(r.Traceroute.Runs, run)
			}
		}
	}
	return r
}

// ---- kind 9: the HTTP handler's query parsing ----------------------------------------------

func optInt(s string, ok bool) sx {
	if !ok {
		return L()
	}
	var v int
	if _, err := fmt.Sscanf(s, "%d", &v); err != nil || fmt.Sprint(v) != s && "+"+fmt.Sprint(v) != s {
		return L()
	}
	return L(sxInt(int64(v)))
}

func runQueryCase(port, maxTTL, proto, method string, hasPort, hasTTL, hasProto, hasMethod bool) (sx, sx) {
	q := url.Values{}
	q.Set("target", "127.0.0.1")
	if hasPort {
		q.Set("port", port)
	}
	if hasTTL {
		q.Set("max-ttl", maxTTL)
	}
	if hasProto {
		q.Set("protocol", proto)
	}
	if hasMethod {
		q.Set("tcp-method", method)
	}
	u := &url.URL{Path: "/traceroute", RawQuery: q.Encode()}
	p, err := server.VerifParseTracerouteParams(u)
	in := L(sxInt(9), optInt(port, hasPort), optInt(maxTTL, hasTTL),
		func() sx {
			if !hasProto {
				return L()
			}
			return L(sxInt(int64(protoCode(proto))))
		}(),
		func() sx {
			if !hasMethod {
				return L()
			}
			return L(sxInt(int64(methodCode(method))))
		}())
	if err != nil {
		return in, L(sxInt(1))
	}
	return in, L(sxInt(0), sxInt(int64(protoCode(p.Protocol))), sxInt(int64(p.MinTTL)), sxInt(int64(p.MaxTTL)), sxInt(int64(p.Port)), sxInt(int64(methodCode(string(p.TCPMethod)))))
}

// ---- kind 27: an HTTP request end to end: query -> handler -> runs -> response document -----------------

// runHTTPRequestCase sends one GET /traceroute through the real handler of a Server around a Traceroute object; the per-run
// seam records what the runs were started with and answers with a path whose first hop is private, so the response shows
// whether the skip-private-hops flag took effect.
func runHTTPRequestCase(t *testing.T, proto, method string, q, e2e, timeoutMs, maxTTL, port int, skip bool) (sx, sx) {
	var out sx
	synctest.Test(t, func(t *testing.T) {
		var mu sync.Mutex
		nReg, nE2e := 0, 0
		var seen []int64
		restore := traceroute.VerifSetRunOnce(func(ctx context.Context, p traceroute.TracerouteParams, dport int) (*result.TracerouteRun, error) {
			time.Sleep(time.Millisecond)
			mu.Lock()
			if p.MinTTL == p.MaxTTL {
				nE2e++
			} else {
				nReg++
				seen = []int64{int64(p.Timeout), int64(protoCode(p.Protocol)), int64(methodCode(string(p.TCPMethod))), int64(p.MaxTTL), int64(dport), b2i(p.SkipPrivateHops), int64(p.MinTTL), int64(p.Delay)}
			}
			mu.Unlock()
			return &result.TracerouteRun{Source: result.TracerouteSource{IPAddress: net.IPv4(192, 0, 2, 1), Port: 40000}, Destination: result.TracerouteDestination{IPAddress: net.IPv4(8, 8, 8, 8), Port: uint16(dport)},
				Hops: []*result.TracerouteHop{{TTL: 1, IPAddress: net.IPv4(10, 11, 12, 13), RTT: 0.25}, {TTL: 2, IPAddress: net.IPv4(8, 8, 8, 8), RTT: 0.5, IsDest: true}}}, nil
		})
		defer restore()
		srv := server.VerifNewServer(traceroute.VerifNewTraceroute(nullFetcher{}))
		qs := url.Values{}
		qs.Set("target", "8.8.8.8")
		qs.Set("protocol", proto)
		qs.Set("tcp-method", method)
		qs.Set("traceroute-queries", strconv.Itoa(q))
		qs.Set("e2e-queries", strconv.Itoa(e2e))
		qs.Set("timeout", strconv.Itoa(timeoutMs))
		qs.Set("max-ttl", strconv.Itoa(maxTTL))
		qs.Set("port", strconv.Itoa(port))
		qs.Set("skip-private-hops", strconv.FormatBool(skip))
		rec := httptest.NewRecorder()
		req := httptest.NewRequest(http.MethodGet, "/traceroute?"+qs.Encode(), nil)
		status := 0
		func() {
			defer func() {
				if r := recover(); r != nil {
					status = 2
				}
			}()
			srv.TracerouteHandler(rec, req)
		}()
		synctest.Wait()
		if status == 0 && rec.Code != http.StatusOK {
			status = 1
		}
		leak := strings.Contains(rec.Body.String(), "10.11.12.13")
		mu.Lock()
		ss := sxList{}
		for _, v := range seen {
			ss = append(ss, sxInt(v))
		}
		out = L(sxInt(int64(status)), sxInt(int64(nReg)), sxInt(int64(nE2e)), ss, sxBool(leak))
		mu.Unlock()
	})
	return L(sxInt(27), sxInt(int64(protoCode(proto))), sxInt(int64(methodCode(method))), sxInt(int64(q)), sxInt(int64(e2e)), sxInt(int64(timeoutMs)), sxInt(int64(maxTTL)), sxInt(int64(port)), sxBool(skip)), out
}

// ---- kind 25: command-line flags reach the runs ------------------------------------------------------

// runCLIFlagsCase runs the real command with every flag given explicitly and records, at the per-run seam, how many
// traceroute runs and end-to-end probes were started and with which parameters.
func runCLIFlagsCase(t *testing.T, proto, method string, q, e2e, timeoutMs, maxTTL, port int, rdns, skip bool) (sx, sx) {
	var out sx
	synctest.Test(t, func(t *testing.T) {
		var mu sync.Mutex
		nReg, nE2e := 0, 0
		var seen []int64
		restore := traceroute.VerifSetRunOnce(func(ctx context.Context, p traceroute.TracerouteParams, dport int) (*result.TracerouteRun, error) {
			time.Sleep(time.Millisecond)
			mu.Lock()
			if p.MinTTL == p.MaxTTL {
				nE2e++
			} else {
				nReg++
				seen = []int64{int64(p.Timeout), int64(protoCode(p.Protocol)), int64(methodCode(string(p.TCPMethod))), int64(p.MaxTTL), int64(dport), b2i(p.ReverseDns), b2i(p.SkipPrivateHops), b2i(p.CollectSourcePublicIP), int64(p.MinTTL), int64(p.Delay)}
			}
			mu.Unlock()
			ip := net.IPv4(127, 0, 0, 1)
			return &result.TracerouteRun{Source: result.TracerouteSource{IPAddress: ip, Port: 40000}, Destination: result.TracerouteDestination{IPAddress: ip, Port: uint16(dport)},
				Hops: []*result.TracerouteHop{{TTL: p.MaxTTL, IPAddress: ip, RTT: 0.5, IsDest: true}}}, nil
		})
		defer restore()
		args := []string{"--proto", proto, "--tcp-method", method, "-q", strconv.Itoa(q), "-Q", strconv.Itoa(e2e), "--timeout", strconv.Itoa(timeoutMs), "--max-ttl", strconv.Itoa(maxTTL),
			"--port", strconv.Itoa(port), fmt.Sprintf("--reverse-dns=%v", rdns), fmt.Sprintf("--skip-private-hops=%v", skip), "--source-public-ip=false", "--ipv6=false", "127.0.0.1"}
		status := 0
		func() {
			defer func() {
				if r := recover(); r != nil {
					status = 2
				}
			}()
			if _, err := runCLI(args); err != nil {
				status = 1
			}
		}()
		synctest.Wait()
		mu.Lock()
		ss := sxList{}
		for _, v := range seen {
			ss = append(ss, sxInt(v))
		}
		out = L(sxInt(int64(status)), sxInt(int64(nReg)), sxInt(int64(nE2e)), ss)
		mu.Unlock()
	})
	return L(sxInt(25), sxInt(int64(protoCode(proto))), sxInt(int64(methodCode(method))), sxInt(int64(q)), sxInt(int64(e2e)), sxInt(int64(timeoutMs)), sxInt(int64(maxTTL)), sxInt(int64(port)), sxBool(rdns), sxBool(skip)), out
}

func b2i(b bool) int64 {
	if b {
		return 1
	}
	return 0
}

// ---- kind 24: the remaining HTTP query parameters (counts, timeout, flags) ---------------------------

func optBool(s string, ok bool) sx {
	if !ok {
		return L()
	}
	if v, err := strconv.ParseBool(s); err == nil {
		return L(sxBool(v))
	}
	return L()
}

func runQueryRestCase(tq, tmo, e2e string, hasTq, hasTmo, hasE2e bool, flags [4]string, hasFlag [4]bool) (sx, sx) {
	q := url.Values{}
	q.Set("target", "127.0.0.1")
	if hasTq {
		q.Set("traceroute-queries", tq)
	}
	if hasTmo {
		q.Set("timeout", tmo)
	}
	if hasE2e {
		q.Set("e2e-queries", e2e)
	}
	names := [4]string{"ipv6", "reverse-dns", "source-public-ip", "skip-private-hops"}
	fl := sxList{}
	for i, n := range names {
		if hasFlag[i] {
			q.Set(n, flags[i])
		}
		fl = append(fl, optBool(flags[i], hasFlag[i]))
	}
	u := &url.URL{Path: "/traceroute", RawQuery: q.Encode()}
	p, err := server.VerifParseTracerouteParams(u)
	in := L(sxInt(24), optInt(tq, hasTq), optInt(tmo, hasTmo), optInt(e2e, hasE2e), fl)
	if err != nil {
		return in, L(sxInt(1))
	}
	return in, L(sxInt(0), sxInt(int64(p.TracerouteQueries)), sxInt(int64(p.Timeout)), sxInt(int64(p.E2eQueries)),
		L(sxBool(p.WantV6), sxBool(p.ReverseDns), sxBool(p.CollectSourcePublicIP), sxBool(p.SkipPrivateHops)), sxInt(int64(p.MinTTL)), sxInt(int64(p.Delay)))
}

// ---- kind 23: the endpoint an HTTP query's target text stands for is the endpoint the request would probe ----

// runQueryTargetCase parses the query with the server's parser, then resolves what it handed on (hostname, port; 0 = the
// default port) with the library's own target parser: the address and port the run would probe.
func runQueryTargetCase(target string, wantAddr []byte, explicitPort int, port string, hasPort bool) (sx, sx) {
	q := url.Values{}
	q.Set("target", target)
	if hasPort {
		q.Set("port", port)
	}
	u := &url.URL{Path: "/traceroute", RawQuery: q.Encode()}
	p, err := server.VerifParseTracerouteParams(u)
	in := L(sxInt(23), sxStr(target), sxBytes(wantAddr), sxInt(int64(explicitPort)), optInt(port, hasPort))
	if err != nil {
		return in, L(sxInt(1), sxInt(1), sxBytes(nil), sxInt(0))
	}
	dflt := p.Port
	if dflt == 0 {
		dflt = 33434
	}
	// only address literals are resolved here (a name would send the library's parser to the resolver, which this sandbox
	// does not have): a handler that hands on something that is no longer an address literal has changed the endpoint
	lit := p.Hostname
	if h, _, err := net.SplitHostPort(lit); err == nil {
		lit = h
	}
	lit = strings.TrimSuffix(strings.TrimPrefix(lit, "["), "]")
	if _, err := netip.ParseAddr(lit); err != nil {
		return in, L(sxInt(0), sxInt(1), sxBytes(nil), sxInt(0))
	}
	ap, perr := traceroute.VerifParseTarget(p.Hostname, dflt, len(wantAddr) == 16)
	if perr != nil {
		return in, L(sxInt(0), sxInt(1), sxBytes(nil), sxInt(0))
	}
	return in, L(sxInt(0), sxInt(0), sxBytes(ap.Addr().AsSlice()), sxInt(int64(ap.Port())))
}

// ---- kind 10: target literal forms -----------------------------------------------------------

func runTargetCase(raw string, dflt int, v6 bool, wantAddr []byte, explicitPort int) (sx, sx) {
	ap, err := traceroute.VerifParseTarget(raw, dflt, v6)
	in := L(sxInt(10), sxStr(raw), sxInt(int64(dflt)), sxBytes(wantAddr), sxInt(int64(explicitPort)))
	if err != nil {
		return in, L(sxInt(1), sxBytes(nil), sxInt(0))
	}
	return in, L(sxInt(0), sxBytes(ap.Addr().AsSlice()), sxInt(int64(ap.Port())))
}

// ---- kind 11: performTCPFallback with scripted error trees ----------------------------------------

type errTree struct {
	kind int // 0 leaf, 1 wrap, 2 notsup, 3 join
	id   int
	subs []errTree
}

func (e errTree) sx() sx {
	l := sxList{sxInt(int64(e.kind)), sxInt(int64(e.id))}
	for _, s := range e.subs {
		l = append(l, s.sx())
	}
	return l
}

var fbLeaves = func() []error {
	es := make([]error, 16)
	for i := range es {
		es[i] = fmt.Errorf("cause #%d", i)
	}
	return es
}()

func (e errTree) build() error {
	switch e.kind {
	case 0:
		return fbLeaves[e.id]
	case 1:
		return fmt.Errorf("wrapped: %w", e.subs[0].build())
	case 2:
		return &sack.NotSupportedError{Err: e.subs[0].build()}
	default:
		var es []error
		for _, s := range e.subs {
			es = append(es, s.build())
		}
		return errors.Join(es...)
	}
}

func genErrTree(r *rng, depth int) errTree {
	if depth <= 0 || r.intn(4) == 0 {
		return errTree{kind: 0, id: r.intn(16)}
	}
	switch r.intn(5) {
	case 0:
		return errTree{kind: 2, subs: []errTree{genErrTree(r, depth-1)}}
	case 1:
		n := 1 + r.intn(3)
		t := errTree{kind: 3}
		for i := 0; i < n; i++ {
			t.subs = append(t.subs, genErrTree(r, depth-1))
		}
		return t
	default:
		return errTree{kind: 1, subs: []errTree{genErrTree(r, depth-1)}}
	}
}

func runFallbackCase(r *rng) (sx, sx) {
	method := pick(r, []string{"", "syn", "sack", "prefer_sack", "prefer_sack", "prefer_sack", "syn_socket", "bogus"})
	type outc struct {
		ok   bool
		tree errTree
	}
	mk := func() outc {
		if r.intn(3) == 0 {
			return outc{ok: true}
		}
		return outc{tree: genErrTree(r, 4)}
	}
	os := [3]outc{mk(), mk(), mk()}
	var calls [3]int
	runs := [3]*result.TracerouteRun{{RunID: "syn"}, {RunID: "sack"}, {RunID: "sock"}}
	fn := func(i int) func() (*result.TracerouteRun, error) {
		return func() (*result.TracerouteRun, error) {
			calls[i]++
			if os[i].ok {
				return runs[i], nil
			}
			return nil, os[i].tree.build()
		}
	}
	res, err := traceroute.VerifPerformTCPFallback(traceroute.TCPMethod(method), fn(0), fn(1), fn(2))
	which := -1
	for i, rr := range runs {
		if res == rr {
			which = i
		}
	}
	causes := sxList{}
	var ns *sack.NotSupportedError
	hasNS := false
	if err != nil {
		for i, c := range fbLeaves {
			if errors.Is(err, c) {
				causes = append(causes, sxInt(int64(i)))
			}
		}
		hasNS = errors.As(err, &ns)
	}
	enc := func(o outc) sx {
		if o.ok {
			return L(sxInt(1))
		}
		return L(sxInt(0), o.tree.sx())
	}
	in := L(sxInt(11), sxInt(int64(methodCode(method))), enc(os[0]), enc(os[1]), enc(os[2]))
	out := L(sxInt(int64(which)), sxBool(err != nil), causes, sxBool(hasNS), sxInt(int64(calls[0])), sxInt(int64(calls[1])), sxInt(int64(calls[2])))
	return in, out
}

// ---- kind 12: real TCP runs against a loopback target -------------------------------------------------

const (
	capSack   = iota // listening, SYN-ACK with SACK-permitted
	capSackTS        // ... and timestamps
	capNoSackPermitted
	capAckWithoutSack // SACK-permitted in the handshake, then acknowledgements without SACK blocks
	capClosed         // nothing listens on the port
	capNotCaptured    // listening, but the SYN-ACK never reaches the capture handle
	capFilterFails    // installing the post-handshake filter fails
	capSendFails      // the first probe cannot be written
	capReadFails      // a read during the run fails with a non-retryable error
	// as capAckWithoutSack, but the target is two hops away: the probe with TTL 1 is answered by a router's
	// time-exceeded first, so the engine already holds a hop when the acknowledgement without SACK blocks arrives
	capAckWithoutSackFar
	// the target supports SACK and says so in every acknowledgement: each probe is answered by a duplicate ACK whose
	// SACK block is that probe's own byte - with the run's initial sequence number two below the 2^32 wrap
	capSackAnswers
	// as capSack, but the capture handle sees, before the run's own SYN-ACK, the target's SYN-ACK to ANOTHER connection
	// attempt from this host (a concurrent SYN traceroute or end-to-end probe to the same target: SYN probes carry no
	// options, so that SYN-ACK has no SACK-permitted).  The SYN-ACK filter matches on the target only.  It says nothing
	// about what the target grants THIS connection.
	capSackForeignSynackFirst
)

var injectedCause = errors.New("injected non-capability failure")

func runTCPCase(t *testing.T, method string, capab int) (sx, sx) {
	// the listener and its accept loop live outside the bubble
	var ln net.Listener
	portCh := make(chan int, 4)
	var accepted atomic.Int32
	var conns []net.Conn
	var cmu sync.Mutex
	dport := 0
	if capab != capClosed {
		var err error
		ln, err = net.Listen("tcp4", "127.0.0.1:0")
		must(err)
		dport = ln.Addr().(*net.TCPAddr).Port
		go func() {
			for {
				c, err := ln.Accept()
				if err != nil {
					return
				}
				accepted.Add(1)
				cmu.Lock()
				conns = append(conns, c)
				cmu.Unlock()
				portCh <- c.RemoteAddr().(*net.TCPAddr).Port
			}
		}()
	} else {
		// a port nobody listens on: bind, note, release
		l, err := net.Listen("tcp4", "127.0.0.1:0")
		must(err)
		dport = l.Addr().(*net.TCPAddr).Port
		l.Close()
	}
	var out sx
	var outHead []sx
	tupleMismatch, endpointMismatch, drained, foreignHops := 0, 0, 0, 0
	// a real-time limit on waiting for the run's TCP connection (made outside the bubble: a timer of the bubble's virtual
	// clock could not fire while a goroutine waits on the accept channel)
	giveUp := make(chan struct{})
	giveUpTimer := time.AfterFunc(3*time.Second, func() { close(giveUp) })
	defer giveUpTimer.Stop()
	synctest.Test(t, func(t *testing.T) {
		f := &wireFactory{faults: newFaultPlan()}
		lo := [4]byte{127, 0, 0, 1}
		cfg := drvCfg{local: lo[:], target: lo[:], dport: dport, initSeq: 0xfffffffe, initAck: 0x10203041, tsVal: 500, tsEcr: 77}
		if capab == capSackAnswers {
			cfg.initSeq = 0xffffffff // every probe's sequence number lies beyond the wrap
		}
		var once sync.Once
		nHandles := 0
		f.onNew = func(h *wireHandle) {
			nHandles++
			// every SYN probe is "answered" by a time-exceeded that quotes it with ANOTHER source port (the probe of another
			// flow from this host, e.g. a concurrent query): with strict quoted-source checking - nobody asked for the
			// relaxed one - such an error never becomes a hop
			h.snk.mu.Lock()
			h.snk.onWrite = func(p outPkt) {
				b := p.data
				if len(b) >= 40 && b[0]>>4 == 4 && b[9] == 6 && b[33]&0x12 == 0x02 {
					q := append([]byte(nil), b[:28]...)
					binary.BigEndian.PutUint16(q[20:], binary.BigEndian.Uint16(q[20:])+1)
					h.src.inject(te4([4]byte{10, 9, 0, b[8]}, lo, 11, 0, q, nil, [4]byte{}), time.Time{})
				}
			}
			h.snk.mu.Unlock()
			// only the SACK attempt's handle (the first one of a sack / prefer_sack run) reads a handshake
			if nHandles != 1 || method == "syn" {
				return
			}
			// the target's SYN-ACK is captured while connect() is still in progress, so it is already in the socket by the
			// time the run touches its handle again: it is put there at the first handle operation after the dial - the
			// first Read, or an earlier second SetPacketFilter (whose drain then discards it, as the real source would)
			h.src.drainOnFilter = true
			arrive := func() {
				once.Do(func() {
					if capab == capClosed {
						return
					}
					// the accept loop runs outside the bubble: waiting on its channel is not durably
					// blocking, so the virtual clock stands still until the peer port is known
					select {
					case <-giveUp:
						// nobody connected within 3 s of real time: the run is not doing a SACK handshake at all
					case lp := <-portCh:
						c := cfg
						c.sport = lp
						if capab == capSackForeignSynackFirst {
							other := c
							other.sport = lp%60000 + 1025
							h.src.inject(other.synack(false, 0, 0x12), time.Time{})
						}
						switch capab {
						case capNoSackPermitted:
							h.src.inject(c.synack(false, 0, 0x12), time.Time{})
						case capNotCaptured:
						case capSackTS:
							h.src.inject(c.synack(true, 1, 0x12), time.Time{})
						default:
							h.src.inject(c.synack(true, 0, 0x12), time.Time{})
						}
						if capab == capSackAnswers {
							h.snk.mu.Lock()
							h.snk.onWrite = func(p outPkt) {
								b := p.data
								if len(b) < 40 || b[0]>>4 != 4 || b[9] != 6 || b[33] != 0x18 {
									return
								}
								seq := binary.BigEndian.Uint32(b[24:28])
								opt := []byte{1, 1, 5, 10, 0, 0, 0, 0, 0, 0, 0, 0}
								binary.BigEndian.PutUint32(opt[4:], seq)
								binary.BigEndian.PutUint32(opt[8:], seq+1)
								seg := buildTCP4(tcpHdr{sport: uint16(dport), dport: uint16(lp), seq: cfg.initAck, ack: cfg.initSeq, flags: 0x10, win: 512, opts: opt}, nil, lo, lo)
								h.src.inject(buildIP4(ip4Hdr{ttl: 60, proto: 6, src: lo, dst: lo}, seg), time.Time{})
							}
							h.snk.mu.Unlock()
						}
						if capab == capAckWithoutSackFar {
							h.snk.mu.Lock()
							h.snk.onWrite = func(p outPkt) {
								if len(p.data) >= 28 && p.data[8] == 1 {
									h.src.inject(te4([4]byte{10, 0, 0, 1}, lo, 11, 0, p.data[:28], nil, [4]byte{}), time.Time{})
									return
								}
								seg := buildTCP4(tcpHdr{sport: uint16(dport), dport: uint16(lp), seq: cfg.initAck, ack: cfg.initSeq, flags: 0x10, win: 512}, nil, lo, lo)
								h.src.inject(buildIP4(ip4Hdr{ttl: 60, proto: 6, src: lo, dst: lo}, seg), time.Time{})
							}
							h.snk.mu.Unlock()
						}
						if capab == capAckWithoutSack {
							h.snk.mu.Lock()
							h.snk.onWrite = func(p outPkt) {
								seg := buildTCP4(tcpHdr{sport: uint16(dport), dport: uint16(lp), seq: cfg.initAck, ack: cfg.initSeq, flags: 0x10, win: 512}, nil, lo, lo)
								h.src.inject(buildIP4(ip4Hdr{ttl: 60, proto: 6, src: lo, dst: lo}, seg), time.Time{})
							}
							h.snk.mu.Unlock()
						}
					}
				})
			}
			h.src.onFirstRead = arrive
			h.src.onFilter = func(n int) {
				if n >= 2 {
					arrive()
				}
			}
		}
		switch capab {
		case capFilterFails:
			f.faults.set("SetPacketFilter", 2, injectedCause)
		case capSendFails:
			f.faults.set("WriteTo", 1, injectedCause)
		case capReadFails:
			f.faults.set("Read", 3, injectedCause)
		}
		defer f.install()()
		p := traceroute.TracerouteParams{Hostname: "127.0.0.1", Port: dport, Protocol: "tcp", MinTTL: 1, MaxTTL: 3, Delay: 1, Timeout: 2 * time.Second, TCPMethod: traceroute.TCPMethod(method)}
		status := 0
		var err error
		var trRun *result.TracerouteRun
		func() {
			defer func() {
				if r := recover(); r != nil {
					status = 2
				}
			}()
			trRun, err = traceroute.VerifRunTracerouteOnce(context.Background(), p, dport)
		}()
		if err == nil && trRun != nil {
			for _, hp := range trRun.Hops {
				// only the routers that answered with the foreign-port quotes (10.9.0.x): genuine answers of some target
				// capabilities (a router's time-exceeded, the target's SACK) are hops by right
				if hp != nil {
					if v4 := hp.IPAddress.To4(); v4 != nil && v4[0] == 10 && v4[1] == 9 && v4[2] == 0 {
						foreignHops++
					}
				}
			}
		}
		// the endpoints a successful run reports are those of the TCP probes written through one of its handles (the
		// handle of the attempt that produced the result: a prefer_sack run may have abandoned a SACK attempt first)
		if err == nil && trRun != nil {
			f.mu.Lock()
			any, matched := false, false
			for _, h := range f.handles {
				n, ok := 0, true
				for _, o := range h.snk.sent() {
					b := o.data
					if len(b) >= 24 && b[0]>>4 == 4 && b[9] == 6 {
						l4 := b[int(b[0]&0xf)*4:]
						if len(l4) < 4 {
							continue
						}
						n++
						if int(l4[0])<<8|int(l4[1]) != int(trRun.Source.Port) || int(l4[2])<<8|int(l4[3]) != int(trRun.Destination.Port) ||
							!net.IP(b[12:16]).Equal(trRun.Source.IPAddress) || !net.IP(b[16:20]).Equal(trRun.Destination.IPAddress) {
							ok = false
						}
					}
				}
				if n > 0 {
					any = true
					if ok {
						matched = true
					}
				}
			}
			f.mu.Unlock()
			if any && !matched {
				endpointMismatch = 1
			}
		}
		var ns *sack.NotSupportedError
		syn, ackpsh := 0, 0
		for _, w := range summarize(f.allSent()) {
			if w.proto == 6 && w.flags&0x02 != 0 && w.flags&0x10 == 0 {
				syn++
			}
			if w.proto == 6 && w.flags == 0x18 {
				ackpsh++
			}
		}
		closes := sxList{}
		f.mu.Lock()
		for _, h := range f.handles {
			closes = append(closes, L(sxInt(int64(h.src.closes)), sxInt(int64(h.snk.closes)), sxInt(int64(h.src.useAfter+h.snk.useAfter))))
			// the 4-tuple filter a handle was given against the flow of the TCP packets written through that same handle
			h.src.mu.Lock()
			specs := append([]packets.PacketFilterSpec(nil), h.src.filterSpecs...)
			drained += h.src.drained
			h.src.mu.Unlock()
			for _, sp := range specs {
				if sp.FilterType != packets.FilterTypeTCP {
					continue
				}
				for _, o := range h.snk.sent() {
					b := o.data
					if len(b) >= 24 && b[0]>>4 == 4 && b[9] == 6 {
						l4 := b[int(b[0]&0xf)*4:]
						if len(l4) >= 4 && (int(l4[0])<<8|int(l4[1]) != int(sp.FilterConfig.Dst.Port()) || int(l4[2])<<8|int(l4[3]) != int(sp.FilterConfig.Src.Port())) {
							tupleMismatch++
						}
					}
				}
			}
		}
		f.mu.Unlock()
		if status != 2 && err != nil {
			status = 1
		}
		outHead = []sx{sxInt(int64(status)), sxBool(err != nil && errors.As(err, &ns)), sxBool(err != nil && errors.Is(err, injectedCause)),
			sxInt(int64(syn)), sxInt(int64(ackpsh)), sxInt(int64(accepted.Load())), closes, sxInt(int64(tupleMismatch)), sxInt(int64(endpointMismatch)), sxInt(int64(drained)), sxInt(int64(foreignHops))}
	})
	if ln != nil {
		ln.Close()
	}
	// seen from the peer: every TCP connection the run dialled is closed once the run has returned (EOF or reset at
	// once; a connection still open makes the read run into its deadline)
	leaked := 0
	cmu.Lock()
	for _, c := range conns {
		_ = c.SetReadDeadline(time.Now().Add(300 * time.Millisecond))
		var b [1]byte
		_, rerr := c.Read(b[:])
		var ne net.Error
		if rerr != nil && errors.As(rerr, &ne) && ne.Timeout() {
			leaked++
		}
		c.Close()
	}
	cmu.Unlock()
	out = L(append(outHead, sxInt(int64(leaked)))...)
	return L(sxInt(12), sxInt(int64(methodCode(method))), sxInt(int64(capab))), out
}

// ---- kind 22: which TCP method each run of a whole request is handed -----------------------

// runMethodPropagationCase runs Traceroute.RunTraceroute with q traceroute queries and n end-to-end probes and records,
// through the per-run seam, the (protocol, method, MinTTL == MaxTTL) every run was started with.
func runMethodPropagationCase(t *testing.T, proto, method string, q, n int) (sx, sx) {
	var out sx
	synctest.Test(t, func(t *testing.T) {
		var mu sync.Mutex
		var reg, e2e []int64
		restore := traceroute.VerifSetRunOnce(func(ctx context.Context, p traceroute.TracerouteParams, dport int) (*result.TracerouteRun, error) {
			time.Sleep(time.Duration(1+len(p.TCPMethod)) * time.Millisecond)
			mu.Lock()
			if p.MinTTL == p.MaxTTL {
				e2e = append(e2e, int64(methodCode(string(p.TCPMethod))))
			} else {
				reg = append(reg, int64(methodCode(string(p.TCPMethod))))
			}
			mu.Unlock()
			ip := net.IPv4(127, 0, 0, 1)
			return &result.TracerouteRun{Source: result.TracerouteSource{IPAddress: ip, Port: 40000}, Destination: result.TracerouteDestination{IPAddress: ip, Port: uint16(dport)},
				Hops: []*result.TracerouteHop{{TTL: p.MaxTTL, IPAddress: ip, RTT: 0.5, IsDest: true}}}, nil
		})
		defer restore()
		tr := traceroute.VerifNewTraceroute(nullFetcher{})
		p := traceroute.TracerouteParams{Hostname: "127.0.0.1", Port: 443, Protocol: proto, MinTTL: 1, MaxTTL: 5, Delay: 1, Timeout: 300 * time.Millisecond,
			TCPMethod: traceroute.TCPMethod(method), TracerouteQueries: q, E2eQueries: n}
		status := 0
		func() {
			defer func() {
				if r := recover(); r != nil {
					status = 2
				}
			}()
			if _, err := tr.RunTraceroute(context.Background(), p); err != nil {
				status = 1
			}
		}()
		synctest.Wait()
		mu.Lock()
		sort.Slice(reg, func(i, j int) bool { return reg[i] < reg[j] })
		sort.Slice(e2e, func(i, j int) bool { return e2e[i] < e2e[j] })
		rs, es := sxList{}, sxList{}
		for _, v := range reg {
			rs = append(rs, sxInt(v))
		}
		for _, v := range e2e {
			es = append(es, sxInt(v))
		}
		mu.Unlock()
		out = L(sxInt(int64(status)), rs, es)
	})
	return L(sxInt(22), sxInt(int64(protoCode(proto))), sxInt(int64(methodCode(method))), sxInt(int64(q)), sxInt(int64(n))), out
}

func reps25(e labEnv) int {
	if e.thorough() {
		return 6
	}
	return 1
}

func labPar(e labEnv) {
	r := newRng(e.seed)
	w, err := newCaseWriter(filepath.Join(e.out, "par.cases"))
	must(err)
	tags := map[string]int{}
	// kind 8
	mins := []int{-1, 0, 1, 2, 255, 256, 257}
	maxs := []int{-1, 0, 1, 5, 254, 255, 256, 257, 258, 300, 511, 65536 + 5}
	ports := []int{0, 1, 80, 65535, 65536, 65616, -1, 131070}
	protos := []string{"udp", "udp", "tcp", "tcp", "icmp", "sctp", ""}
	n8 := 260
	if e.thorough() {
		n8 = 2500
	}
	for i := 0; i < n8; i++ {
		c := parCase{proto: pick(r, protos), minTTL: pick(r, mins), maxTTL: pick(r, maxs), port: pick(r, ports), v6: r.intn(4) == 0}
		if i%3 == 0 { // valid ranges more often, with both extremes
			c.minTTL = pick(r, []int{1, 1, 2, 250, 255})
			c.maxTTL = pick(r, []int{c.minTTL, c.minTTL + 3, 255})
			if c.maxTTL > 255 {
				c.maxTTL = 255
			}
		}
		if c.proto == "tcp" {
			c.method = pick(r, []string{"", "syn", "syn", "bogus", "SYN"})
			c.v6 = false
		}
		in, out := runParCase(e.t, c)
		w.put(in, out)
		tags["run:"+c.proto]++
		// every fourth request also through the command line (no --min-ttl flag there: first TTL 1)
		if i%4 == 1 {
			c2 := c
			c2.viaCLI, c2.minTTL = true, 1
			if i%8 == 1 {
				c2.maxTTL = pick(r, []int{-30, -1, 0, 1, 2, 30, 255, 256, 300})
			}
			in, out := runParCase(e.t, c2)
			w.put(in, out)
			tags["cli:"+c2.proto]++
		}
	}
	// kind 9
	strs := []string{"0", "1", "30", "255", "256", "300", "-1", "65535", "65536", "abc", "", "1e3", "0x10", " 7"}
	for i := 0; i < 400; i++ {
		in, out := runQueryCase(pick(r, strs), pick(r, strs), pick(r, []string{"udp", "tcp", "icmp", "sctp"}), pick(r, []string{"syn", "sack", "prefer_sack", "syn_socket", "x"}),
			r.bool(), r.bool(), r.bool(), r.bool())
		w.put(in, out)
		tags["query"]++
	}
	// kind 27
	for i := 0; i < 40*reps25(e); i++ {
		proto := pick(r, []string{"udp", "tcp", "icmp"})
		method := "syn"
		if proto == "tcp" {
			method = pick(r, []string{"syn", "sack", "prefer_sack"})
		}
		in, out := runHTTPRequestCase(e.t, proto, method, pick(r, []int{1, 2, 3}), pick(r, []int{0, 1, 3}), pick(r, []int{1, 100, 450, 3000}), pick(r, []int{2, 5, 30, 255}),
			pick(r, []int{1, 80, 33434, 65535}), r.bool())
		w.put(in, out)
		tags["http_request"]++
	}
	// kind 25
	for i := 0; i < 40*reps25(e); i++ {
		proto := pick(r, []string{"udp", "tcp", "icmp"})
		method := "syn"
		if proto == "tcp" {
			method = pick(r, []string{"syn", "sack", "prefer_sack"})
		}
		in, out := runCLIFlagsCase(e.t, proto, method, pick(r, []int{1, 2, 3, 5}), pick(r, []int{0, 1, 3, 7}), pick(r, []int{1, 100, 450, 3000}), pick(r, []int{2, 5, 30, 255}),
			pick(r, []int{1, 80, 33434, 65535}), r.bool(), r.bool())
		w.put(in, out)
		tags["cli_flags"]++
	}
	// kind 24
	{
		ints := []string{"0", "1", "3", "7", "50", "200", "3000", "-1", "65536", "abc", "", "2.5", " 4"}
		bools := []string{"true", "false", "1", "0", "t", "F", "TRUE", "yes", "", "2"}
		for i := 0; i < 300; i++ {
			var fl [4]string
			var hf [4]bool
			for k := range fl {
				fl[k], hf[k] = pick(r, bools), r.intn(3) != 0
			}
			in, out := runQueryRestCase(pick(r, ints), pick(r, ints), pick(r, ints), r.bool(), r.bool(), r.bool(), fl, hf)
			w.put(in, out)
			tags["query_rest"]++
		}
	}
	// kind 23: address literals whose tail looks like a port, bracketed and bare, with and without an explicit port
	{
		a4, b4 := []byte{192, 0, 2, 7}, []byte{198, 51, 100, 9}
		ip6 := func(s string) []byte { return net.ParseIP(s).To16() }
		for _, tg := range []struct {
			raw  string
			addr []byte
			port int
		}{{"127.0.0.1", []byte{127, 0, 0, 1}, -1}, {"192.0.2.7:443", a4, 443}, {"192.0.2.7:1", a4, 1}, {"198.51.100.9:65535", b4, 65535},
			{"2001:db8::1", ip6("2001:db8::1"), -1}, {"2001:db8::1:443", ip6("2001:db8::1:443"), -1}, {"2001:db8::10:25", ip6("2001:db8::10:25"), -1},
			{"[2001:db8::7]", ip6("2001:db8::7"), -1}, {"[2001:db8::7]:8080", ip6("2001:db8::7"), 8080}, {"::1", ip6("::1"), -1}, {"fe80::1:80", ip6("fe80::1:80"), -1},
			{"2001:db8:0:0:0:0:0:53", ip6("2001:db8::53"), -1}} {
			for _, pt := range []struct {
				s  string
				ok bool
			}{{"", false}, {"8080", true}, {"0", true}, {"65535", true}} {
				in, out := runQueryTargetCase(tg.raw, tg.addr, tg.port, pt.s, pt.ok)
				w.put(in, out)
				tags["query_target"]++
			}
		}
	}
	// kind 10
	v4 := []byte{127, 0, 0, 1}
	v6a := net.ParseIP("2001:db8::7").To16()
	for _, dflt := range []int{33434, 80, 0, 1, 65535, 65536, -1, 70000} {
		for _, tc := range []struct {
			raw  string
			addr []byte
			port int
		}{
			{"127.0.0.1", v4, -1}, {"127.0.0.1:443", v4, 443}, {"127.0.0.1:0", v4, 0}, {"127.0.0.1:65535", v4, 65535}, {"127.0.0.1:65536", v4, 65536}, {"127.0.0.1:-5", v4, -5},
			{"2001:db8::7", v6a, -1}, {"[2001:db8::7]", v6a, -1}, {"[2001:db8::7]:8080", v6a, 8080}, {"[2001:db8::7]:0", v6a, 0}, {"[2001:db8::7]:70000", v6a, 70000},
		} {
			in, out := runTargetCase(tc.raw, dflt, len(tc.addr) == 16, tc.addr, tc.port)
			w.put(in, out)
			tags["target_literal"]++
		}
	}
	// kind 11
	n11 := 1500
	if e.thorough() {
		n11 = 15000
	}
	for i := 0; i < n11; i++ {
		in, out := runFallbackCase(r)
		w.put(in, out)
		tags["fallback_selector"]++
	}
	// kind 12
	reps := 1
	if e.thorough() {
		reps = 4
	}
	for k := 0; k < reps; k++ {
		for _, m := range []string{"syn", "sack", "prefer_sack"} {
			for capab := capSack; capab <= capSackForeignSynackFirst; capab++ {
				in, out := runTCPCase(e.t, m, capab)
				w.put(in, out)
				tags[fmt.Sprintf("tcp_run:%s:cap%d", m, capab)]++
			}
		}
	}
	// kind 22: every method x protocol x 1..3 traceroute queries x 0..3 end-to-end probes, as whole requests
	for k := 0; k < reps; k++ {
		for _, proto := range []string{"tcp", "udp"} {
			for _, m := range []string{"", "syn", "sack", "prefer_sack", "syn_socket"} {
				for q := 1; q <= 3; q++ {
					for n := 0; n <= 3; n++ {
						in, out := runMethodPropagationCase(e.t, proto, m, q, n)
						w.put(in, out)
						tags["request_methods:"+proto+":"+m]++
					}
				}
			}
		}
	}
	must(w.close())
	writeDist(e, "par", tags)
}
