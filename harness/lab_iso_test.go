package harness

import (
	"path/filepath"
	"sync"

	"github.com/DataDog/datadog-traceroute/icmp"
	"github.com/DataDog/datadog-traceroute/packets"
)

func init() { labs["iso"] = labIso }

// kind 13: packets.AllocPacketID sequences  input (13 counter concurrent (m...))  impl ((base...))
// kind 14: icmp.nextEchoID                  input (14 counter n)                 impl ((id...))
func labIso(e labEnv) {
	r := newRng(e.seed)
	w, err := newCaseWriter(filepath.Join(e.out, "iso.cases"))
	must(err)
	tags := map[string]int{}
	n := 600
	if e.thorough() {
		n = 30000
	}
	counters := []uint32{0, 1, 65535, 65536, 0xfffffe00, 0xffffffff, 0xfffffff0, 0x7fffffff}
	for i := 0; i < n; i++ {
		c0 := pick(r, counters)
		if r.intn(3) == 0 {
			c0 = r.u32()
		}
		k := 1 + r.intn(12)
		ms := make([]int, k)
		for j := range ms {
			ms[j] = pick(r, []int{1, 30, 30, 64, 128, 254, 255, 255, 1 + r.intn(255)})
		}
		concurrent := r.intn(3) == 0
		packets.VerifSetPacketIDCounter(c0)
		bases := make([]int, k)
		if concurrent {
			var wg sync.WaitGroup
			for j := range ms {
				wg.Add(1)
				go func(j int) {
					defer wg.Done()
					bases[j] = int(packets.AllocPacketID(uint8(ms[j])))
				}(j)
			}
			wg.Wait()
		} else {
			for j := range ms {
				bases[j] = int(packets.AllocPacketID(uint8(ms[j])))
			}
		}
		in, out := sxList{}, sxList{}
		for j := range ms {
			in = append(in, sxInt(int64(ms[j])))
			out = append(out, sxInt(int64(bases[j])))
		}
		w.put(L(sxInt(13), sxInt(int64(c0)), sxBool(concurrent), in), L(out))
		tags["alloc_sequences"]++
		if concurrent {
			tags["alloc_concurrent"]++
		}
	}
	for i := 0; i < n/4; i++ {
		c0 := pick(r, counters)
		k := 1 + r.intn(40)
		icmp.VerifSetEchoCounter(c0)
		out := sxList{}
		for j := 0; j < k; j++ {
			out = append(out, sxInt(int64(icmp.VerifNextEchoID())))
		}
		w.put(L(sxInt(14), sxInt(int64(c0)), sxInt(int64(k))), L(out))
		tags["echo_id_sequences"]++
	}
	must(w.close())
	writeDist(e, "iso", tags)
}
