package harness

import (
	"net"
	"path/filepath"
	"sync"
	"time"

	"github.com/DataDog/datadog-traceroute/icmp"
	"github.com/DataDog/datadog-traceroute/packets"
	"github.com/DataDog/datadog-traceroute/tcp"
)

func init() { labs["iso"] = labIso }

// kind 13: packets.AllocPacketID sequences  input (13 counter concurrent (m...))  impl ((base...))
// kind 14: icmp.nextEchoID                  input (14 counter n)                 impl ((id...))
func labIso(e labEnv) {
	r := newRng(e.seed)
	w, err := newCaseWriter(filepath.Join(e.out, "iso.cases"))
	must(err)
	tags := map[string]int{}
	n := 600
	if e.thorough() {
		n = 30000
	}
	counters := []uint32{0, 1, 65535, 65536, 0xfffffe00, 0xffffffff, 0xfffffff0, 0x7fffffff}
	for i := 0; i < n; i++ {
		c0 := pick(r, counters)
		if r.intn(3) == 0 {
			c0 = r.u32()
		}
		k := 1 + r.intn(12)
		ms := make([]int, k)
		for j := range ms {
			ms[j] = pick(r, []int{1, 30, 30, 64, 128, 254, 255, 255, 1 + r.intn(255)})
		}
		concurrent := r.intn(3) == 0
		packets.VerifSetPacketIDCounter(c0)
		bases := make([]int, k)
		if concurrent {
			var wg sync.WaitGroup
			for j := range ms {
				wg.Add(1)
				go func(j int) {
					defer wg.Done()
					bases[j] = int(packets.AllocPacketID(uint8(ms[j])))
				}(j)
			}
			wg.Wait()
		} else {
			for j := range ms {
				bases[j] = int(packets.AllocPacketID(uint8(ms[j])))
			}
		}
		in, out := sxList{}, sxList{}
		for j := range ms {
			in = append(in, sxInt(int64(ms[j])))
			out = append(out, sxInt(int64(bases[j])))
		}
		w.put(L(sxInt(13), sxInt(int64(c0)), sxBool(concurrent), in), L(out))
		tags["alloc_sequences"]++
		if concurrent {
			tags["alloc_concurrent"]++
		}
	}
	for i := 0; i < n/4; i++ {
		c0 := pick(r, counters)
		k := 1 + r.intn(40)
		icmp.VerifSetEchoCounter(c0)
		out := sxList{}
		for j := 0; j < k; j++ {
			out = append(out, sxInt(int64(icmp.VerifNextEchoID())))
		}
		w.put(L(sxInt(14), sxInt(int64(c0)), sxInt(int64(k))), L(out))
		tags["echo_id_sequences"]++
	}
	// kind 26: the IP identifications several TCP SYN runs alive together really put on the wire (default mode), for runs
	// with first TTL 1, first TTL > 1 and single-TTL runs (what an end-to-end probe is): input (26 counter ((first last)...))
	// impl (((id...)...))
	for i := 0; i < n/6; i++ {
		c0 := pick(r, counters)
		packets.VerifSetPacketIDCounter(c0)
		k := 2 + r.intn(5)
		in, out := sxList{}, sxList{}
		for j := 0; j < k; j++ {
			last := pick(r, []int{1, 5, 30, 30, 64, 255})
			first := pick(r, []int{1, 1, last, 1 + r.intn(last)})
			snk := newSimSink(nil)
			cfg := tcp.NewTCPv4(net.IP{198, 51, 100, 7}, 443, uint8(first), uint8(last), time.Millisecond, time.Second, false, false)
			v := tcp.VerifNewDriver(cfg, net.IP{192, 0, 2, 2}, uint16(40000+j), snk, newSimSource(nil))
			ids := sxList{}
			for ttl := first; ttl <= last; ttl++ {
				_ = v.Driver().SendProbe(uint8(ttl))
			}
			for _, o := range snk.sent() {
				if len(o.data) >= 6 {
					ids = append(ids, sxInt(int64(o.data[4])<<8|int64(o.data[5])))
				}
			}
			in = append(in, L(sxInt(int64(first)), sxInt(int64(last))))
			out = append(out, ids)
		}
		w.put(L(sxInt(26), sxInt(int64(c0)), in), L(out))
		tags["tcp_wire_ip_ids"]++
	}
	must(w.close())
	writeDist(e, "iso", tags)
}
