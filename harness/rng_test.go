package harness

// splitmix64: the single PRNG stream every random choice derives from.
type rng struct{ s uint64 }

func newRng(seed uint64) *rng { return &rng{s: seed*0x9E3779B97F4A7C15 + 0x1234567} }

func (r *rng) u64() uint64 {
	r.s += 0x9E3779B97F4A7C15
	z := r.s
	z = (z ^ (z >> 30)) * 0xBF58476D1CE4E5B9
	z = (z ^ (z >> 27)) * 0x94D049BB133111EB
	return z ^ (z >> 31)
}
func (r *rng) intn(n int) int {
	if n <= 0 {
		return 0
	}
	return int(r.u64() % uint64(n))
}
func (r *rng) bool() bool  { return r.u64()&1 == 1 }
func (r *rng) byte() byte  { return byte(r.u64()) }
func (r *rng) u16() uint16 { return uint16(r.u64()) }
func (r *rng) u32() uint32 { return uint32(r.u64()) }
func (r *rng) bytes(n int) []byte {
	b := make([]byte, n)
	for i := range b {
		b[i] = r.byte()
	}
	return b
}
func pick[T any](r *rng, xs []T) T { return xs[r.intn(len(xs))] }
