package harness

import (
	"context"
	"errors"
	"fmt"
	"os"
	"path/filepath"
	"runtime/debug"
	"testing"
	"testing/synctest"
	"time"

	"github.com/DataDog/datadog-traceroute/common"
	"github.com/DataDog/datadog-traceroute/result"
	"github.com/DataDog/datadog-traceroute/traceroute"
)

func init() { labs["life"] = labLife }

// kind 15: one protocol entry point with one injected fault
//
//	input (15 variant (n_send n_deadline n_read) op k class)   op: 0 open 1 filter 2 send 3 set-deadline 4 read; class: 0 fatal 1 deadline 2 zero-length
//	impl  (status cause_kept result_nil opened (src_closes snk_closes used_after_close)... goroutines_left)
var lifeOps = []string{"NewSourceSink", "SetPacketFilter", "WriteTo", "SetReadDeadline", "Read"}

// openFDs counts this process's open file descriptors (the listing's own descriptor is in both counts that are compared).
func openFDs() int {
	es, err := os.ReadDir("/proc/self/fd")
	if err != nil {
		return -1
	}
	return len(es)
}

func runLife(t *testing.T, variant string, op, k, class int, cancelAt time.Duration) (status int, kept, resNil bool, handles sxList, counts [5]int, fdLeak int, fired int) {
	// sockets the run opens itself (the UDP socket that yields the local address and holds the source port, the TCP
	// port-reservation listener) are real ones: with the collector off - a finalizer would close a forgotten socket and
	// hide it - the number of open descriptors after the run must be what it was before
	oldGC := debug.SetGCPercent(-1)
	defer debug.SetGCPercent(oldGC)
	fdBefore := openFDs()
	defer func() {
		if after := openFDs(); fdBefore >= 0 && after > fdBefore {
			fdLeak = after - fdBefore
		}
	}()
	synctest.Test(t, func(t *testing.T) {
		f := &wireFactory{faults: newFaultPlan()}
		if op >= 0 {
			switch class {
			case 0:
				f.faults.set(lifeOps[op], k, injectedCause)
			case 1:
				f.faults.set(lifeOps[op], k, fmt.Errorf("injected: %w", os.ErrDeadlineExceeded))
			case 2:
				f.faults.setZero(lifeOps[op], k)
			}
		}
		// the first router answers: a run that fails later has already recorded a hop (a failure must still be an error
		// without a result, not a partial path)
		f.onNew = func(h *wireHandle) {
			h.snk.mu.Lock()
			h.snk.onWrite = func(p outPkt) {
				b := p.data
				switch {
				case len(b) >= 28 && b[0]>>4 == 4 && b[8] == 1:
					var dst [4]byte
					copy(dst[:], b[12:16])
					h.src.inject(te4([4]byte{10, 0, 0, 1}, dst, 11, 0, b[:28], nil, [4]byte{}), time.Time{})
				case len(b) >= 48 && b[0]>>4 == 6 && b[7] == 1:
					var dst, rt [16]byte
					copy(dst[:], b[8:24])
					rt[0], rt[1], rt[15] = 0x20, 0x01, 0x99
					h.src.inject(te6(rt, dst, 3, 0, b), time.Time{})
				}
			}
			h.snk.mu.Unlock()
		}
		defer f.install()()
		p := traceroute.TracerouteParams{Hostname: "127.0.0.1", Port: 33434, Protocol: "udp", MinTTL: 1, MaxTTL: 3, Delay: 10, Timeout: 250 * time.Millisecond, TCPMethod: "syn"} // 250 ms: never coincides with a 100 ms poll boundary
		switch variant {
		case "udp6":
			p.Hostname, p.WantV6 = "::1", true
		case "icmp":
			p.Protocol = "icmp"
		case "icmp6":
			p.Protocol, p.Hostname, p.WantV6 = "icmp", "::1", true
		case "tcp":
			p.Protocol = "tcp"
		}
		var res *result.TracerouteRun
		var err error
		func() {
			defer func() {
				if r := recover(); r != nil {
					status = 2
				}
			}()
			ctx, cancel := context.WithCancel(context.Background())
			defer cancel()
			if cancelAt > 0 {
				time.AfterFunc(cancelAt, cancel)
			}
			res, err = traceroute.VerifRunTracerouteOnce(ctx, p, 33434)
		}()
		if status != 2 && err != nil {
			status = 1
		}
		kept = err != nil && (errors.Is(err, injectedCause) || errors.Is(err, os.ErrDeadlineExceeded) || (cancelAt > 0 && errors.Is(err, context.Canceled)))
		resNil = res == nil
		// anything still running after the call returned would touch the (closed) handles when it next wakes
		time.Sleep(2 * time.Second)
		synctest.Wait()
		f.mu.Lock()
		for _, h := range f.handles {
			handles = append(handles, L(sxInt(int64(h.src.closes)), sxInt(int64(h.snk.closes)), sxInt(int64(h.src.useAfter+h.snk.useAfter))))
		}
		f.mu.Unlock()
		for i, o := range lifeOps {
			counts[i] = f.faults.calls(o)
		}
		f.faults.mu.Lock()
		fired = f.faults.fired
		f.faults.mu.Unlock()
	})
	return
}

func labLife(e labEnv) {
	w, err := newCaseWriter(filepath.Join(e.out, "life.cases"))
	must(err)
	tags := map[string]int{}
	variants := []string{"udp", "icmp", "tcp", "udp6", "icmp6"}
	for vi, v := range variants {
		_, _, _, _, base, _, _ := runLife(e.t, v, -1, 0, 0, 0)
		plan := L(sxInt(int64(base[2])), sxInt(int64(base[3])), sxInt(int64(base[4])))
		put := func(op, k, class int) {
			st, kept, rn, hs, _, fdLeak, fired := runLife(e.t, v, op, k, class, 0)
			if hs == nil {
				hs = sxList{}
			}
			w.put(L(sxInt(15), sxInt(int64(vi)), plan, sxInt(int64(op)), sxInt(int64(k)), sxInt(int64(class))),
				L(sxInt(int64(st)), sxBool(kept), sxBool(rn), hs, sxInt(int64(fdLeak)), sxInt(int64(fired))))
			tags[fmt.Sprintf("%s:%s:class%d", v, lifeOps[op], class)]++
		}
		put(0, 1, 0)
		put(1, 1, 0)
		for op := 2; op <= 4; op++ {
			ks := map[int]bool{1: true, 2: true, base[op]: true, base[op] + 1: true, (base[op] + 1) / 2: true}
			if e.thorough() {
				for k := 1; k <= base[op]+1; k++ {
					ks[k] = true
				}
			}
			for k := range ks {
				if k < 1 {
					continue
				}
				for class := 0; class <= 2; class++ {
					if class == 2 && op != 4 {
						continue
					}
					put(op, k, class)
				}
			}
		}
	}
	// kind 29: no fault at all, but the caller's context ends while the run is under way (sender asleep between probes, receiver
	// inside a Read): whatever the run returns, it has stopped using its handles - no operation still executing - when it
	// closes them and returns
	//   input (29 variant cancel_at_ns)   impl (status is_the_context_error result_nil (src_closes snk_closes used_after_close)... fd_leak)
	for vi, v := range variants {
		for _, at := range []time.Duration{5*time.Millisecond + 333, 35*time.Millisecond + 333, 120*time.Millisecond + 333, 255*time.Millisecond + 333, 400*time.Millisecond + 333} {
			st, kept, rn, hs, _, fdLeak, _ := runLife(e.t, v, -1, 0, 0, at)
			if hs == nil {
				hs = sxList{}
			}
			w.put(L(sxInt(29), sxInt(int64(vi)), sxInt(int64(at))), L(sxInt(int64(st)), sxBool(kept), sxBool(rn), hs, sxInt(int64(fdLeak))))
			tags["context_ends_midway:"+v]++
		}
	}
	// kind 16: a SendProbe that is already in flight when the destination answer is processed, and then fails
	//   input (16 serial k in_flight_ns dest_delay_ns)   impl (status cause_kept result_nil)
	for _, serial := range []bool{false, true} {
		for k := 1; k <= 4; k++ {
			for _, dur := range []time.Duration{0, 3 * time.Millisecond, 40 * time.Millisecond} {
				for _, dd := range []time.Duration{1*time.Millisecond + 7, 12*time.Millisecond + 7, 500*time.Millisecond + 7} {
					var st int
					var kept, rn bool
					synctest.Test(e.t, func(t *testing.T) {
						d := newScriptDriver(!serial, []scriptEntry{{ttl: 1, delay: dd, ip: 7, dest: true}, {ttl: 2, delay: dd, ip: 8}})
						d.failSend, d.sendErr, d.sendDur = k, injectedCause, dur
						tp := common.TracerouteParams{MinTTL: 1, MaxTTL: 5, TracerouteTimeout: 250*time.Millisecond + 500, PollFrequency: 20 * time.Millisecond, SendDelay: 10 * time.Millisecond}
						var res []*common.ProbeResponse
						var err error
						if serial {
							res, err = common.TracerouteSerial(context.Background(), d, common.TracerouteSerialParams{TracerouteParams: tp})
						} else {
							res, err = common.TracerouteParallel(context.Background(), d, common.TracerouteParallelParams{TracerouteParams: tp})
						}
						if err != nil {
							st = 1
						}
						kept, rn = errors.Is(err, injectedCause), res == nil
					})
					w.put(L(sxInt(16), sxBool(serial), sxInt(int64(k)), sxInt(int64(dur)), sxInt(int64(dd))), L(sxInt(int64(st)), sxBool(kept), sxBool(rn)))
					tags["send_fails_in_flight"]++
				}
			}
		}
	}
	must(w.close())
	writeDist(e, "life", tags)
}
