package harness

import (
	"context"
	"encoding/binary"
	"fmt"
	"math"
	"net"
	"path/filepath"
	"sync"
	"testing"
	"testing/synctest"
	"time"

	"github.com/DataDog/datadog-traceroute/icmp"
	"github.com/DataDog/datadog-traceroute/packets"
	"github.com/DataDog/datadog-traceroute/result"
	"github.com/DataDog/datadog-traceroute/traceroute"
)

// ---- kind 18: several real runs at once over ONE simulated wire -----------------------------
//
// Every capture handle sees every inbound packet (AF_PACKET semantics).  The network routes per flow: the flow key
// (echo identifier, or local port) determines the path length, the silent router and the router ADDRESSES, so a reply
// that leaks from one run into another shows up as a router of the wrong flow.
//
//   input (18 filter_on ((proto v6 last start_ms group) ...))      proto: 0 udp 1 tcp-syn 2 icmp; group > 0: run is one
//                                                                  of the queries of RunTraceroute request #group
//   impl  ((status ((ttl ip dest rtt_negative rtt_us) ...) port_held) ...)   one entry per run, same order;
//         port_held = 0 when another socket could bind the run's local UDP / TCP port while the run was in flight

type sharedNet struct {
	mu      sync.Mutex
	handles []*wireHandle
	replies int
	probes  int
	// for UDP / TCP flows: could somebody else bind the flow's local port while the run was in flight?
	// (the run must hold it: the kernel then never hands it to a second run)
	portFree map[[2]int]bool
}

// probePort is called at the first probe of a UDP / TCP flow: tries to take the flow's local port.
func (n *sharedNet) probePort(proto byte, v6 bool, port int) {
	n.mu.Lock()
	if n.portFree == nil {
		n.portFree = map[[2]int]bool{}
	}
	k := [2]int{int(proto), port}
	_, seen := n.portFree[k]
	n.mu.Unlock()
	if seen {
		return
	}
	free := false
	if proto == 6 {
		if l, err := net.Listen("tcp", fmt.Sprintf(":%d", port)); err == nil {
			free = true
			l.Close()
		}
	} else {
		ip := net.IPv4(127, 0, 0, 1)
		if v6 {
			ip = net.IPv6loopback
		}
		if c, err := net.ListenUDP("udp", &net.UDPAddr{IP: ip, Port: port}); err == nil {
			free = true
			c.Close()
		}
	}
	n.mu.Lock()
	n.portFree[k] = free
	n.mu.Unlock()
}

func sharedPath(key int) (n, silent int) {
	n = 1 + key%4
	if n >= 2 && (key/4)%3 == 0 {
		silent = 1 + (key/12)%n
	}
	return
}

func sharedRouter4(key, k int) [4]byte { return [4]byte{10, byte(key >> 8), byte(key), byte(k)} }
func sharedRouter6(key, k int) [16]byte {
	var a [16]byte
	a[0], a[12], a[13], a[15] = 0xfd, byte(key>>8), byte(key), byte(k)
	return a
}

// add registers a capture handle and returns the number of the socket pair (1..30, then around again): the routers of the
// lab put it into the upper bits of their address' last byte, so a reply to a probe that left through another run's socket
// is recognisable even when both runs use the same flow identifier
func (n *sharedNet) add(h *wireHandle) int {
	n.mu.Lock()
	n.handles = append(n.handles, h)
	k := (len(n.handles)-1)%30 + 1
	n.mu.Unlock()
	return k
}

func (n *sharedNet) deliver(pkt []byte, at time.Time) {
	n.mu.Lock()
	hs := append([]*wireHandle(nil), n.handles...)
	n.replies++
	n.mu.Unlock()
	for _, h := range hs {
		h.src.inject(pkt, at)
	}
}

// onProbe answers one probe the way an RFC-conformant path would.
func (n *sharedNet) onProbe(p outPkt, sock int) {
	b := p.data
	n.mu.Lock()
	n.probes++
	n.mu.Unlock()
	if len(b) >= 28 && b[0]>>4 == 4 {
		ihl := int(b[0]&0xf) * 4
		ttl, proto := int(b[8]), b[9]
		var src, dst [4]byte
		copy(src[:], b[12:16])
		copy(dst[:], b[16:20])
		l4 := b[ihl:]
		if len(l4) < 8 {
			return
		}
		key := 0
		switch proto {
		case 1:
			if l4[0] != 8 {
				return
			}
			key = int(binary.BigEndian.Uint16(l4[4:6]))
		case 6, 17:
			key = int(binary.BigEndian.Uint16(l4[0:2]))
			n.probePort(proto, false, key)
		default:
			return
		}
		hops, silent := sharedPath(key)
		delay := time.Duration(2+key%7+ttl) * time.Millisecond
		at := p.at.Add(delay)
		var reply []byte
		if ttl <= hops {
			if ttl == silent {
				return
			}
			q := append([]byte(nil), b[:ihl+8]...)
			q[8] = 1
			reply = buildIP4(ip4Hdr{ttl: byte(64 - ttl), proto: 1, src: sharedRouter4(key, ttl+8*sock), dst: src, id: uint16(key + ttl)}, buildICMP4(11, 0, [4]byte{}, q))
		} else {
			switch proto {
			case 1:
				var rest [4]byte
				copy(rest[:], l4[4:8])
				reply = buildIP4(ip4Hdr{ttl: 60, proto: 1, src: dst, dst: src}, buildICMP4(0, 0, rest, l4[8:]))
			case 17:
				q := append([]byte(nil), b[:ihl+8]...)
				q[8] = 1
				reply = buildIP4(ip4Hdr{ttl: 60, proto: 1, src: dst, dst: src}, buildICMP4(3, 3, [4]byte{}, q))
			case 6:
				if len(l4) < 20 {
					return
				}
				sport, dport := binary.BigEndian.Uint16(l4[0:2]), binary.BigEndian.Uint16(l4[2:4])
				seq := binary.BigEndian.Uint32(l4[4:8])
				seg := buildTCP4(tcpHdr{sport: dport, dport: sport, seq: 0x01020304 + uint32(key), ack: seq + 1, flags: 0x12, win: 512}, nil, dst, src)
				reply = buildIP4(ip4Hdr{ttl: 60, proto: 6, src: dst, dst: src}, seg)
			}
		}
		n.deliver(reply, at)
		// duplicates, except for TCP SYN runs: those use the serial engine, where a reply that arrives after its own
		// window takes the place of the next TTL's reply (the histories C02 excludes for the serial engine)
		if proto != 6 && (key+ttl)%5 == 0 {
			n.deliver(reply, at.Add(3*time.Millisecond))
		}
		return
	}
	if len(b) >= 48 && b[0]>>4 == 6 {
		nh, ttl := b[6], int(b[7])
		var src, dst [16]byte
		copy(src[:], b[8:24])
		copy(dst[:], b[24:40])
		l4 := b[40:]
		key := 0
		switch nh {
		case 58:
			if l4[0] != 128 {
				return
			}
			key = int(binary.BigEndian.Uint16(l4[4:6]))
		case 17:
			key = int(binary.BigEndian.Uint16(l4[0:2]))
			n.probePort(17, true, key)
		default:
			return
		}
		hops, silent := sharedPath(key)
		at := p.at.Add(time.Duration(2+key%7+ttl) * time.Millisecond)
		var reply []byte
		quote := func() []byte {
			q := append([]byte{0, 0, 0, 0}, b...)
			q[4+7] = 1
			return q
		}
		if ttl <= hops {
			if ttl == silent {
				return
			}
			r := sharedRouter6(key, ttl+8*sock)
			reply = buildIP6(ip6Hdr{nh: 58, hlim: byte(64 - ttl), src: r, dst: src, payLen: -1}, buildICMP6(3, 0, quote(), r, src))
		} else if nh == 58 {
			reply = buildIP6(ip6Hdr{nh: 58, hlim: 60, src: dst, dst: src, payLen: -1}, buildICMP6(129, 0, l4[4:], dst, src))
		} else {
			reply = buildIP6(ip6Hdr{nh: 58, hlim: 60, src: dst, dst: src, payLen: -1}, buildICMP6(1, 4, quote(), dst, src))
		}
		n.deliver(reply, at)
		if (key+ttl)%5 == 0 {
			n.deliver(reply, at.Add(3*time.Millisecond))
		}
	}
}

type sharedRun struct {
	proto   string
	v6      bool
	last    int
	startMs int
	group   int // 0: a direct runTracerouteOnce; > 0: one query of a RunTraceroute request
	queries int // for the first run of a group: TracerouteQueries
	e2e     int
}

func hopsSx(hs []*result.TracerouteHop) sx {
	l := sxList{}
	for _, h := range hs {
		ip := []byte(h.IPAddress)
		if v4 := h.IPAddress.To4(); v4 != nil {
			ip = v4
		}
		l = append(l, L(sxInt(int64(h.TTL)), sxBytes(ip), sxBool(h.IsDest), sxBool(h.RTT < 0), sxInt(int64(math.Round(h.RTT*1000)))))
	}
	return l
}

var nwPorts *sharedNet // the network of the scenario being run (labs run one scenario at a time)

func runShared(t *testing.T, runs []sharedRun, filterOn bool, slow int, ctr int) (sx, sx, int, int) {
	outs := make([]sx, len(runs))
	spans := make([][2]int64, len(runs)) // virtual start and end instant of every run (ns since the scenario began)
	probes, replies := 0, 0
	synctest.Test(t, func(t *testing.T) {
		bubbleStart := time.Now()
		f := &wireFactory{}
		nw := &sharedNet{}
		nwPorts = nw
		if ctr > 0 {
			// the process has handed out identifiers for a long time: the next echo identifier and the next block of IP
			// identifications lie [ctr] below the 16-bit wrap
			icmp.VerifSetEchoCounter(uint32(65536 - ctr))
			packets.VerifSetPacketIDCounter(uint32(65536 - ctr))
		}
		f.onNew = func(h *wireHandle) {
			h.src.applyFilter = filterOn
			switch slow {
			case 1:
				// every write returns 20 ms after the probe left: the reply is back before SendProbe has returned
				h.snk.writeDelay = 20 * time.Millisecond
			case 2:
				// the socket takes the bytes only 3 ms after WriteTo was entered (it was not writable): other runs build
				// and send their probes meanwhile
				h.snk.acceptDelay = 3 * time.Millisecond
			}
			sock := nw.add(h)
			h.snk.onWrite = func(p outPkt) { nw.onProbe(p, sock) }
		}
		defer f.install()()
		var wg sync.WaitGroup
		for j := 0; j < len(runs); j++ {
			c := runs[j]
			if c.group > 0 && c.queries == 0 {
				continue // filled in by the group's first run
			}
			wg.Add(1)
			go func(j int, c sharedRun) {
				defer wg.Done()
				time.Sleep(time.Duration(c.startMs) * time.Millisecond)
				host := "127.0.0.1"
				if c.v6 {
					host = "::1"
				}
				p := traceroute.TracerouteParams{Hostname: host, Port: 33434, Protocol: c.proto, MinTTL: 1, MaxTTL: c.last, Delay: 7, Timeout: 250 * time.Millisecond, TCPMethod: "syn", WantV6: c.v6}
				if c.proto == "tcp" {
					p.Port = 443
				}
				t0run := time.Since(bubbleStart)
				if c.group == 0 {
					status := 0
					var res *result.TracerouteRun
					func() {
						defer func() {
							if r := recover(); r != nil {
								status = 2
							}
						}()
						var err error
						res, err = traceroute.VerifRunTracerouteOnce(context.Background(), p, p.Port)
						if err != nil {
							status = 1
						}
					}()
					if res != nil {
						outs[j] = L(sxInt(int64(status)), hopsSx(res.Hops))
					} else {
						outs[j] = L(sxInt(int64(status)), sxList{})
					}
					spans[j] = [2]int64{int64(t0run), int64(time.Since(bubbleStart))}
					return
				}
				p.TracerouteQueries, p.E2eQueries = c.queries, c.e2e
				tr := traceroute.VerifNewTraceroute(nullFetcher{})
				status := 0
				var res *result.Results
				func() {
					defer func() {
						if r := recover(); r != nil {
							status = 2
						}
					}()
					var err error
					res, err = tr.RunTraceroute(context.Background(), p)
					if err != nil {
						status = 1
					}
				}()
				for q := 0; q < c.queries; q++ {
					spans[j+q] = [2]int64{int64(t0run), int64(time.Since(bubbleStart))}
					if res != nil && q < len(res.Traceroute.Runs) {
						outs[j+q] = L(sxInt(int64(status)), hopsSx(res.Traceroute.Runs[q].Hops))
					} else {
						outs[j+q] = L(sxInt(int64(max(status, 1))), sxList{})
					}
				}
			}(j, c)
		}
		wg.Wait()
		nw.mu.Lock()
		probes, replies = nw.probes, nw.replies
		nw.mu.Unlock()
	})
	// which flow is which run: the flow key is in the router addresses of the run's own hops
	heldOf := func(o sx, proto string) sx {
		held := int64(1)
		if l, ok := o.(sxList); ok && len(l) == 2 && proto != "icmp" {
			if hs, ok := l[1].(sxList); ok {
				for _, h := range hs {
					hl, ok := h.(sxList)
					if !ok || len(hl) < 2 {
						continue
					}
					ip, ok := hl[1].(sxBytes)
					key := -1
					if ok && len(ip) == 4 && ip[0] == 10 {
						key = int(ip[1])<<8 | int(ip[2])
					} else if ok && len(ip) == 16 && ip[0] == 0xfd {
						key = int(ip[12])<<8 | int(ip[13])
					}
					if key >= 0 {
						pr := 17
						if proto == "tcp" {
							pr = 6
						}
						nwPorts.mu.Lock()
						if nwPorts.portFree[[2]int{pr, key}] {
							held = 0
						}
						nwPorts.mu.Unlock()
						break
					}
				}
			}
		}
		if l, ok := o.(sxList); ok {
			return append(append(sxList{}, l...), sxInt(held))
		}
		return o
	}
	withSpan := func(o sx, sp [2]int64) sx {
		if l, ok := o.(sxList); ok {
			return append(append(sxList{}, l...), sxInt(sp[0]), sxInt(sp[1]))
		}
		return o
	}
	in, out := sxList{}, sxList{}
	for j, c := range runs {
		in = append(in, L(sxInt(int64(protoCode(c.proto))), sxBool(c.v6), sxInt(int64(c.last)), sxInt(int64(c.startMs)), sxInt(int64(c.group))))
		if outs[j] == nil {
			outs[j] = L(sxInt(3), sxList{})
		}
		out = append(out, withSpan(heldOf(outs[j], c.proto), spans[j]))
	}
	return L(sxInt(18), sxInt(b2i(filterOn)+2*int64(slow)+8*int64(ctr)), in), L(out...), probes, replies
}

func sharedScenarios(r *rng, n int, w *caseWriter, tags map[string]int, t *testing.T) {
	protos := []string{"udp", "tcp", "icmp", "icmp", "udp"}
	// pinned: three runs of one protocol alive together while the process-wide identifier counters cross the 16-bit wrap
	// (what a long-lived process reaches once per 65536 identifiers), as independent runs and as the queries of one request
	for _, proto := range []string{"icmp", "tcp", "udp"} {
		for ctr := 1; ctr <= 5; ctr++ {
			if proto == "udp" && ctr > 1 {
				continue // UDP runs draw from neither counter
			}
			for _, grouped := range []bool{false, true} {
				var runs []sharedRun
				for j := 0; j < 3; j++ {
					c := sharedRun{proto: proto, last: 6, startMs: []int{0, 0, 1}[j]}
					if grouped {
						c.group = 1
						if j == 0 {
							c.queries, c.e2e = 3, 1
						}
					}
					runs = append(runs, c)
				}
				in, out, probes, replies := runShared(t, runs, true, 0, ctr)
				w.put(in, out)
				tags["shared_pinned_counters_cross_the_wrap"]++
				tags["shared_scenarios"]++
				tags["shared_runs"] += len(runs)
				tags["shared_probes"] += probes
				tags["shared_replies_broadcast"] += replies
			}
		}
	}
	for i := 0; i < n; i++ {
		k := 2 + r.intn(4)
		var runs []sharedRun
		sameProto := r.intn(3) == 0
		p0 := pick(r, protos)
		group := 0
		for len(runs) < k {
			c := sharedRun{proto: pick(r, protos), last: pick(r, []int{6, 6, 6, 5, 3, 2}), startMs: pick(r, []int{0, 0, 0, 1, 3, 11, 23, 51})}
			if sameProto {
				c.proto = p0
			}
			if c.proto != "tcp" && r.intn(4) == 0 {
				c.v6 = true
			}
			if r.intn(5) == 0 {
				// one request: several queries (+ end-to-end probes) started by a single RunTraceroute
				group++
				c.group, c.queries, c.e2e = group, 1+r.intn(3), r.intn(3)
				runs = append(runs, c)
				for q := 1; q < c.queries; q++ {
					d := c
					d.queries, d.e2e = 0, 0
					runs = append(runs, d)
				}
				tags["shared_request_groups"]++
				continue
			}
			runs = append(runs, c)
		}
		filterOn := r.intn(4) != 0
		slow := []int{0, 0, 1, 2}[r.intn(4)]
		ctr := 0
		if r.intn(3) == 0 {
			ctr = 1 + r.intn(5)
			tags["shared_identifier_counters_at_the_wrap"]++
		}
		in, out, probes, replies := runShared(t, runs, filterOn, slow, ctr)
		tags[fmt.Sprintf("shared_slow_socket_mode_%d", slow)]++
		w.put(in, out)
		tags["shared_scenarios"]++
		tags["shared_runs"] += len(runs)
		tags["shared_probes"] += probes
		tags["shared_replies_broadcast"] += replies
		if sameProto {
			tags["shared_same_protocol"]++
		}
		if filterOn {
			tags["shared_with_filters"]++
		}
	}
}

func init() { labs["shared"] = labShared }

func labShared(e labEnv) {
	r := newRng(e.seed)
	w, err := newCaseWriter(filepath.Join(e.out, "shared.cases"))
	must(err)
	tags := map[string]int{}
	ns := 40
	if e.thorough() {
		ns = 2000
	}
	sharedScenarios(r, ns, w, tags, e.t)
	must(w.close())
	writeDist(e, "shared", tags)
}

var _ = net.IPv4len
