package harness

import (
	"fmt"
	"net/netip"
	"os"
	"sync"
	"time"

	"golang.org/x/net/bpf"

	"github.com/DataDog/datadog-traceroute/packets"
)

// ---- simulated wire: fake packets.Source / packets.Sink -------------------

type faultPlan struct {
	mu sync.Mutex
	// op -> call index (1-based) -> error to return (nil entry: zero-length read)
	at    map[string]map[int]error
	zero  map[string]map[int]bool
	count map[string]int
	fired int // how many injected faults were actually returned to the code under test
}

func newFaultPlan() *faultPlan {
	return &faultPlan{at: map[string]map[int]error{}, zero: map[string]map[int]bool{}, count: map[string]int{}}
}

func (p *faultPlan) set(op string, k int, err error) {
	p.mu.Lock()
	defer p.mu.Unlock()
	if p.at[op] == nil {
		p.at[op] = map[int]error{}
	}
	p.at[op][k] = err
}
func (p *faultPlan) setZero(op string, k int) {
	p.mu.Lock()
	defer p.mu.Unlock()
	if p.zero[op] == nil {
		p.zero[op] = map[int]bool{}
	}
	p.zero[op][k] = true
}

// hit counts one call of op and says whether a fault fires.
func (p *faultPlan) hit(op string) (err error, zero bool) {
	if p == nil {
		return nil, false
	}
	p.mu.Lock()
	defer p.mu.Unlock()
	p.count[op]++
	k := p.count[op]
	if e, ok := p.at[op][k]; ok {
		p.fired++
		return e, false
	}
	if p.zero[op][k] {
		return nil, true
	}
	return nil, false
}
func (p *faultPlan) calls(op string) int {
	if p == nil {
		return 0
	}
	p.mu.Lock()
	defer p.mu.Unlock()
	return p.count[op]
}

type inPkt struct {
	at   time.Time
	data []byte
}

type simSource struct {
	mu          sync.Mutex
	queue       []inPkt
	deadline    time.Time
	notify      chan struct{}
	closes      int
	useAfter    int // operations after Close, and Closes underneath an operation that was still executing
	inOp        int // Reads executing right now
	faults      *faultPlan
	applyFilter bool
	vm          *bpf.VM
	filterSpecs []packets.PacketFilterSpec
	dropped     int
	reads       int
	delivered   int
	onFirstRead func() // run once, before the first Read looks at the queue
	// onFilter runs at the start of the n-th SetPacketFilter call; drainOnFilter models the drain of the real source
	onFilter      func(n int)
	drainOnFilter bool
	drained       int
}

func newSimSource(faults *faultPlan) *simSource {
	return &simSource{notify: make(chan struct{}, 1), faults: faults}
}

var _ packets.Source = (*simSource)(nil)

func (s *simSource) poke() {
	select {
	case s.notify <- struct{}{}:
	default:
	}
}

// inject queues an IP packet for delivery at instant at (zero: now).
func (s *simSource) inject(data []byte, at time.Time) {
	if at.IsZero() {
		at = time.Now()
	}
	cp := append([]byte(nil), data...)
	s.mu.Lock()
	// keep the queue ordered by delivery time (stable)
	i := len(s.queue)
	for i > 0 && s.queue[i-1].at.After(at) {
		i--
	}
	s.queue = append(s.queue, inPkt{})
	copy(s.queue[i+1:], s.queue[i:])
	s.queue[i] = inPkt{at: at, data: cp}
	s.mu.Unlock()
	s.poke()
}

func (s *simSource) SetReadDeadline(t time.Time) error {
	s.mu.Lock()
	if s.closes > 0 {
		s.useAfter++
	}
	s.mu.Unlock()
	if err, _ := s.faults.hit("SetReadDeadline"); err != nil {
		return err
	}
	s.mu.Lock()
	s.deadline = t
	s.mu.Unlock()
	return nil
}

func etherFrame(ip []byte) []byte {
	f := make([]byte, 14+len(ip))
	copy(f[0:6], []byte{2, 0, 0, 0, 0, 1})
	copy(f[6:12], []byte{2, 0, 0, 0, 0, 2})
	if len(ip) > 0 && ip[0]>>4 == 6 {
		f[12], f[13] = 0x86, 0xdd
	} else {
		f[12], f[13] = 0x08, 0x00
	}
	copy(f[14:], ip)
	return f
}

func (s *simSource) passes(data []byte) bool {
	if !s.applyFilter || s.vm == nil {
		return true
	}
	n, err := s.vm.Run(etherFrame(data))
	return err == nil && n != 0
}

func (s *simSource) Read(buf []byte) (int, error) {
	s.mu.Lock()
	if s.closes > 0 {
		s.useAfter++
	}
	s.reads++
	s.inOp++
	cb := s.onFirstRead
	s.onFirstRead = nil
	s.mu.Unlock()
	defer func() {
		s.mu.Lock()
		s.inOp--
		s.mu.Unlock()
	}()
	if cb != nil {
		cb()
	}
	if err, zero := s.faults.hit("Read"); err != nil {
		return 0, err
	} else if zero {
		return 0, nil
	}
	for {
		s.mu.Lock()
		if s.closes > 0 {
			s.mu.Unlock()
			return 0, fmt.Errorf("read: %w", os.ErrClosed)
		}
		now := time.Now()
		// drop filtered packets that are already due
		for len(s.queue) > 0 && !s.queue[0].at.After(now) {
			p := s.queue[0]
			s.queue = s.queue[1:]
			if !s.passes(p.data) {
				s.dropped++
				continue
			}
			n := copy(buf, p.data)
			s.delivered++
			s.mu.Unlock()
			return n, nil
		}
		dl := s.deadline
		var wake time.Time
		if len(s.queue) > 0 {
			wake = s.queue[0].at
		}
		s.mu.Unlock()
		if !dl.IsZero() && !now.Before(dl) {
			return 0, fmt.Errorf("read sim: %w", os.ErrDeadlineExceeded)
		}
		if wake.IsZero() || (!dl.IsZero() && dl.Before(wake)) {
			wake = dl
		}
		var timer <-chan time.Time
		if !wake.IsZero() {
			tm := time.NewTimer(wake.Sub(now))
			timer = tm.C
			select {
			case <-timer:
			case <-s.notify:
				tm.Stop()
			}
		} else {
			<-s.notify
		}
	}
}

func (s *simSource) Close() error {
	s.mu.Lock()
	s.closes++
	if s.inOp > 0 {
		// the handle is closed while a Read the run started is still executing: that Read uses a closed handle
		s.useAfter++
	}
	s.mu.Unlock()
	s.poke()
	if err, _ := s.faults.hit("SourceClose"); err != nil {
		return err
	}
	return nil
}

func (s *simSource) SetPacketFilter(spec packets.PacketFilterSpec) error {
	s.mu.Lock()
	if s.closes > 0 {
		s.useAfter++
	}
	s.filterSpecs = append(s.filterSpecs, spec)
	nth, cbf := len(s.filterSpecs), s.onFilter
	s.mu.Unlock()
	if cbf != nil {
		cbf(nth)
	}
	// the AF_PACKET source installs a filter by attaching drop-all, reading the socket until it is empty, and only then
	// attaching the program (SetBPFAndDrain): whatever was captured before the call is gone afterwards
	if s.drainOnFilter && spec.FilterType != packets.FilterTypeNone {
		s.mu.Lock()
		now := time.Now()
		for len(s.queue) > 0 && !s.queue[0].at.After(now) {
			s.queue = s.queue[1:]
			s.drained++
		}
		s.mu.Unlock()
	}
	if err, _ := s.faults.hit("SetPacketFilter"); err != nil {
		return err
	}
	if spec.FilterType == packets.FilterTypeNone {
		s.mu.Lock()
		s.vm = nil
		s.mu.Unlock()
		return nil
	}
	prog, err := packets.VerifClassicBPF(spec)
	if err != nil {
		return err
	}
	ins, ok := bpf.Disassemble(prog)
	if !ok {
		return fmt.Errorf("simSource: program does not disassemble")
	}
	vm, err := bpf.NewVM(ins)
	if err != nil {
		return err
	}
	s.mu.Lock()
	s.vm = vm
	s.mu.Unlock()
	return nil
}

type outPkt struct {
	at   time.Time
	data []byte
	to   netip.AddrPort
}

type simSink struct {
	mu       sync.Mutex
	log      []outPkt
	closes   int
	useAfter int
	inOp     int // WriteTos executing right now
	faults   *faultPlan
	onWrite  func(p outPkt)
	// the packet is on the wire when WriteTo is entered; the call itself returns this much later (a slow socket)
	writeDelay time.Duration
	// the socket is not writable at first: the bytes are only taken (and the packet is on the wire) this much after WriteTo
	// was entered - until then the caller's buffer must stay what it was
	acceptDelay time.Duration
}

var _ packets.Sink = (*simSink)(nil)

var errWriteBudget = fmt.Errorf("harness: more than 5000 packets written to one sink")

func newSimSink(faults *faultPlan) *simSink { return &simSink{faults: faults} }

func (s *simSink) WriteTo(buf []byte, addr netip.AddrPort) error {
	s.mu.Lock()
	if s.closes > 0 {
		s.useAfter++
	}
	s.inOp++
	s.mu.Unlock()
	defer func() {
		s.mu.Lock()
		s.inOp--
		s.mu.Unlock()
	}()
	if err, _ := s.faults.hit("WriteTo"); err != nil {
		return err
	}
	if s.acceptDelay > 0 {
		time.Sleep(s.acceptDelay)
	}
	p := outPkt{at: time.Now(), data: append([]byte(nil), buf...), to: addr}
	s.mu.Lock()
	if len(s.log) >= 5000 {
		// no run writes more than a few hundred packets: a runaway sender ends here instead of exhausting memory
		s.mu.Unlock()
		return errWriteBudget
	}
	s.log = append(s.log, p)
	cb := s.onWrite
	s.mu.Unlock()
	if cb != nil {
		cb(p)
	}
	if s.writeDelay > 0 {
		time.Sleep(s.writeDelay)
	}
	return nil
}

func (s *simSink) Close() error {
	s.mu.Lock()
	s.closes++
	if s.inOp > 0 {
		s.useAfter++
	}
	s.mu.Unlock()
	if err, _ := s.faults.hit("SinkClose"); err != nil {
		return err
	}
	return nil
}

func (s *simSink) sent() []outPkt {
	s.mu.Lock()
	defer s.mu.Unlock()
	return append([]outPkt(nil), s.log...)
}
